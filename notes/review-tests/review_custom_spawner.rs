//! probe for 5a6e359 / daf0619: `ActorHandle` now runs the spawner's `detach_fn` in `Drop`.
//! A custom spawner written like the library's own smol spawner was (detach empties the slot)
//! loses the actor for join futures created before the handle is dropped.
mod review_util;
use review_util::*;

use std::{
    future::Future,
    sync::{Arc, Mutex},
};

use futures::channel::oneshot;
use hannibal::{
    DynResult,
    prelude::*,
    spawner::{ActorHandle, JoinFuture, SpawnableWith, Spawner},
};

/// runs every actor on its own thread; the join slot is emptied by `detach`,
/// exactly like `SmolSpawner` did before daf0619
struct ThreadSpawner;


static DETACH_CALLS: std::sync::atomic::AtomicUsize = std::sync::atomic::AtomicUsize::new(0);

impl<A: Actor> Spawner<A> for ThreadSpawner {
    fn spawn_actor<F>(future: F) -> ActorHandle<A>
    where
        F: Future<Output = DynResult<A>> + Send + 'static,
    {
        let (tx, rx) = oneshot::channel::<DynResult<A>>();
        std::thread::spawn(move || {
            let r = futures::executor::block_on(future);
            let _ = tx.send(r);
        });
        let slot = Arc::new(Mutex::new(Some(rx)));
        let detach_slot = Arc::clone(&slot);
        ActorHandle::new(move || -> JoinFuture<A> {
            let slot = Arc::clone(&slot);
            Box::pin(async move {
                let rx = slot.lock().unwrap().take();
                match rx {
                    Some(rx) => rx.await.ok().and_then(Result::ok),
                    None => None,
                }
            })
        })
        .with_detach_fn(move || {
            DETACH_CALLS.fetch_add(1, std::sync::atomic::Ordering::SeqCst);
            detach_slot.lock().unwrap().take();
        })
    }

    fn spawn_future<F>(future: F)
    where
        F: Future<Output = ()> + Send + 'static,
    {
        std::thread::spawn(move || futures::executor::block_on(future));
    }

    async fn sleep(duration: std::time::Duration) {
        futures_timer::Delay::new(duration).await
    }
}

#[derive(Debug, Default)]
struct Plain(u32);
impl Actor for Plain {}
impl Spawnable<ThreadSpawner> for Plain {}

#[test]
fn custom_spawner_consume_sync_yields_actor() {
    block_on(async {
        let owning = <Plain as Spawnable<ThreadSpawner>>::spawn_owning(Plain(7));
        let join = owning.consume_sync().unwrap();
        let got = timeout(ms(1000), join).await.expect("join hangs");
        assert_eq!(got.map(|p| p.0), Some(7), "consume_sync().await lost the actor");
    })
}

#[test]
fn custom_spawner_join_then_drop_handle_yields_actor() {
    block_on(async {
        let (mut addr, mut handle) = Plain(8).spawn_with::<ThreadSpawner>();
        let join = handle.join();
        drop(handle);
        addr.stop().unwrap();
        let got = timeout(ms(1000), join).await.expect("join hangs");
        assert_eq!(got.map(|p| p.0), Some(8), "join future created before the drop lost the actor");
    })
}

#[test]
fn custom_spawner_consume_works() {
    block_on(async {
        let owning = <Plain as Spawnable<ThreadSpawner>>::spawn_owning(Plain(9));
        let got = timeout(ms(1000), owning.consume()).await.expect("hangs");
        assert_eq!(got.map(|p| p.0), Ok(9));
    })
}
