//! probes for cad014a (Addr::stopped/running, WeakAddr::stopped) and f07c954 (Service::already_running)
mod review_util;
use review_util::*;

use hannibal::{Service, WeakAddr, prelude::*};

#[derive(Debug, Default)]
struct Plain;
impl Actor for Plain {}
#[message]
struct Die;
impl Handler<Die> for Plain {
    async fn handle(&mut self, ctx: &mut Context<Self>, _: Die) {
        ctx.stop().unwrap();
    }
}
#[message]
struct Boom;
impl Handler<Boom> for Plain {
    async fn handle(&mut self, _: &mut Context<Self>, _: Boom) {
        panic!("boom (intended)")
    }
}

#[derive(Debug, Default)]
struct FailsToStart;
impl Actor for FailsToStart {
    async fn started(&mut self, _: &mut Context<Self>) -> DynResult<()> {
        Err("nope".into())
    }
}

#[test]
fn stopped_unawaited_all_handle_kinds() {
    block_on(async {
        let addr = Plain.spawn();
        let weak = addr.downgrade();
        let clone = addr.clone();
        assert!(addr.running() && !addr.stopped() && !weak.stopped());
        addr.send(Die).await.unwrap();
        sleep(ms(50)).await;
        assert!(addr.stopped() && !addr.running());
        assert!(clone.stopped());
        assert!(weak.stopped());
        // a weak address made after termination, and its clone
        let weak2 = addr.downgrade();
        assert!(weak2.stopped());
        assert!(weak2.clone().stopped());
        // upgrading is impossible?  the channel is closed but handles are still there
        let up = weak.upgrade();
        println!("{RUNTIME}: upgrade after stop is_some={}", up.is_some());
        if let Some(up) = up {
            assert!(up.stopped());
        }
        // still awaitable after being asked many times
        for _ in 0..10 {
            assert!(addr.stopped());
        }
        assert_eq!(timeout(ms(200), clone).await, Some(Ok(())));
        assert_eq!(timeout(ms(200), addr).await, Some(Ok(())));
    })
}

#[test]
fn stopped_after_await_by_ref_and_clone_of_it() {
    block_on(async {
        let mut addr = Plain.spawn();
        addr.send(Die).await.unwrap();
        (&mut addr).await.unwrap();
        assert!(addr.stopped());
        let c = addr.clone();
        assert!(c.stopped());
        let w = addr.downgrade();
        assert!(w.stopped());
        assert!(w.clone().stopped());
    })
}

#[test]
fn stopped_on_failed_start_and_panic() {
    block_on(async {
        let addr = FailsToStart.spawn();
        let weak = addr.downgrade();
        sleep(ms(50)).await;
        assert!(addr.stopped());
        assert!(weak.stopped());
        assert!(addr.await.is_err());

        let addr = Plain.spawn();
        let _ = addr.send(Boom).await;
        for _ in 0..100 {
            if addr.stopped() {
                break;
            }
            sleep(ms(20)).await; // printing the panic backtrace takes a while
        }
        assert!(addr.stopped());
        assert!(addr.downgrade().stopped());
    })
}

#[test]
fn stopped_does_not_steal_wakeups() {
    // hammer stopped() from other threads while somebody really awaits the address
    block_on(async {
        for round in 0..200 {
            let mut addr = Plain.spawn();
            let waiter = addr.clone();
            let hammer: Vec<_> = (0..3)
                .map(|_| {
                    let a = addr.clone();
                    let w = addr.downgrade();
                    std::thread::spawn(move || {
                        let mut n = 0u64;
                        while !(a.stopped() && w.stopped()) {
                            n += 1;
                            if n > 50_000_000 {
                                panic!("never saw stop");
                            }
                        }
                    })
                })
                .collect();
            let stopper = async {
                sleep(ms(1)).await;
                addr.stop().unwrap();
            };
            let (got, _) = futures::join!(timeout(ms(2000), waiter), stopper);
            assert_eq!(got, Some(Ok(())), "waiter lost its wakeup in round {round}");
            for h in hammer {
                h.join().unwrap();
            }
        }
    })
}

#[derive(Debug, Default)]
struct Svc1;
impl Actor for Svc1 {}
impl Service for Svc1 {}
impl Handler<Die> for Svc1 {
    async fn handle(&mut self, ctx: &mut Context<Self>, _: Die) {
        ctx.stop().unwrap();
    }
}

#[test]
fn already_running_lifecycle() {
    block_on(async {
        assert_eq!(Svc1::already_running().await, None);
        let addr = Svc1::from_registry().await;
        assert_eq!(Svc1::already_running().await, Some(true));
        assert!(Svc1::try_from_registry().is_some());
        addr.send(Die).await.unwrap();
        sleep(ms(50)).await;
        // nobody awaited the address
        assert_eq!(Svc1::already_running().await, Some(false));
        assert!(Svc1::try_from_registry().is_none());
        // a new one is spawned
        let addr2 = Svc1::from_registry().await;
        assert!(addr2.running());
        assert_eq!(Svc1::already_running().await, Some(true));
        // registering over a running one fails, over a stopped one works
        let fresh = Svc1.spawn();
        assert!(fresh.clone().register().await.is_err());
        addr2.send(Die).await.unwrap();
        sleep(ms(50)).await;
        let (_, replaced) = fresh.register().await.unwrap();
        assert!(replaced.is_some());
        assert_eq!(Svc1::already_running().await, Some(true));
        Addr::<Svc1>::unregister().await;
        assert_eq!(Svc1::already_running().await, None);
    })
}

#[allow(dead_code)]
fn weak_is_clone(w: &WeakAddr<Plain>) -> WeakAddr<Plain> {
    w.clone()
}
