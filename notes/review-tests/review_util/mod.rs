#![allow(dead_code)]
use std::{
    future::Future,
    sync::{
        Arc,
        atomic::{AtomicUsize, Ordering},
    },
    time::Duration,
};

pub use hannibal::runtime::{block_on, sleep};

pub async fn timeout<T>(d: Duration, f: impl Future<Output = T>) -> Option<T> {
    let f = Box::pin(f);
    let s = Box::pin(sleep(d));
    match futures::future::select(f, s).await {
        futures::future::Either::Left((v, _)) => Some(v),
        futures::future::Either::Right(_) => None,
    }
}

pub fn ms(n: u64) -> Duration {
    Duration::from_millis(n)
}

#[derive(Clone, Default, Debug)]
pub struct Counter(pub Arc<AtomicUsize>);
impl Counter {
    pub fn inc(&self) -> usize {
        self.0.fetch_add(1, Ordering::SeqCst)
    }
    pub fn get(&self) -> usize {
        self.0.load(Ordering::SeqCst)
    }
}

pub const RUNTIME: &str = if cfg!(feature = "tokio_runtime") {
    "tokio"
} else if cfg!(feature = "async_runtime") {
    "async-std"
} else {
    "smol"
};
