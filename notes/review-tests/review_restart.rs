//! probes for e995c8f (timers of the previous incarnation are aborted on restart)
mod review_util;
use review_util::*;

use std::sync::{Arc, Mutex};

use hannibal::{RestartableActor, prelude::*};

#[derive(Clone, Debug, Default)]
struct Shared {
    ticks: Counter,
    handler_ticks: Counter,
    execs: Counter,
    started: Counter,
    stopped: Counter,
    child_msgs: Counter,
}

#[derive(Debug, Default)]
struct Timed {
    shared: Shared,
}
impl RestartableActor for Timed {}
impl Actor for Timed {
    async fn started(&mut self, ctx: &mut Context<Self>) -> DynResult<()> {
        self.shared.started.inc();
        ctx.interval(Tick, ms(20));
        Ok(())
    }
    async fn stopped(&mut self, _: &mut Context<Self>) {
        self.shared.stopped.inc();
    }
}
#[derive(Clone)]
#[message]
struct Tick;
impl Handler<Tick> for Timed {
    async fn handle(&mut self, _: &mut Context<Self>, _: Tick) {
        self.shared.ticks.inc();
    }
}
#[derive(Clone)]
#[message]
struct HandlerTick;
impl Handler<HandlerTick> for Timed {
    async fn handle(&mut self, _: &mut Context<Self>, _: HandlerTick) {
        self.shared.handler_ticks.inc();
    }
}
/// asks the actor to start a timer from a handler (not from started())
#[message]
struct ArmFromHandler;
impl Handler<ArmFromHandler> for Timed {
    async fn handle(&mut self, ctx: &mut Context<Self>, _: ArmFromHandler) {
        ctx.interval(HandlerTick, ms(20));
        let execs = self.shared.execs.clone();
        ctx.delayed_exec(
            async move {
                execs.inc();
            },
            ms(150),
        );
    }
}
#[message]
struct RestartYourself;
impl Handler<RestartYourself> for Timed {
    async fn handle(&mut self, ctx: &mut Context<Self>, _: RestartYourself) {
        ctx.restart().unwrap();
    }
}

fn rate(c: &Counter, f: impl FnOnce()) -> usize {
    let before = c.get();
    f();
    c.get() - before
}

async fn ticks_in(c: &Counter, d: u64) -> usize {
    let before = c.get();
    sleep(ms(d)).await;
    c.get() - before
}

#[test]
fn restart_only_single_timer_after_many_restarts() {
    block_on(async {
        let shared = Shared::default();
        let mut addr = Timed { shared: shared.clone() }.spawn();
        sleep(ms(50)).await;
        for _ in 0..5 {
            addr.restart().unwrap();
            sleep(ms(10)).await;
        }
        sleep(ms(50)).await;
        let n = ticks_in(&shared.ticks, 400).await;
        println!("{RUNTIME}: ticks in 400ms after 5 restarts (20ms interval): {n}");
        assert!(n <= 24, "more than one interval alive: {n}");
        assert!(n >= 10, "interval dead: {n}");
        assert_eq!(shared.started.get(), 6);
        addr.halt().await.unwrap();
        let _ = rate(&shared.ticks, || ());
        let n = ticks_in(&shared.ticks, 100).await;
        assert_eq!(n, 0);
    })
}

#[test]
fn ctx_restart_single_timer() {
    block_on(async {
        let shared = Shared::default();
        let addr = Timed { shared: shared.clone() }.spawn();
        for _ in 0..3 {
            addr.send(RestartYourself).await.unwrap();
            sleep(ms(10)).await;
        }
        sleep(ms(50)).await;
        let n = ticks_in(&shared.ticks, 400).await;
        println!("{RUNTIME}: ticks in 400ms after 3 ctx restarts: {n}");
        assert!((10..=24).contains(&n), "{n}");
        addr.halt().await.unwrap();
    })
}

#[test]
fn recreate_single_timer() {
    block_on(async {
        // recreated actor gets a fresh Shared (Default), so count through a global
        static TICKS: std::sync::LazyLock<Counter> = std::sync::LazyLock::new(Counter::default);
        #[derive(Debug, Default)]
        struct Re;
        impl RestartableActor for Re {}
        impl Actor for Re {
            async fn started(&mut self, ctx: &mut Context<Self>) -> DynResult<()> {
                ctx.interval_with(|| Tick, ms(20));
                ctx.delayed_send(|| Tick, ms(20));
                Ok(())
            }
        }
        impl Handler<Tick> for Re {
            async fn handle(&mut self, _: &mut Context<Self>, _: Tick) {
                TICKS.inc();
            }
        }
        let mut addr = hannibal::build(Re).unbounded().recreate_from_default().spawn();
        for _ in 0..5 {
            addr.restart().unwrap();
            sleep(ms(5)).await;
        }
        sleep(ms(60)).await;
        let n = ticks_in(&TICKS, 400).await;
        println!("{RUNTIME}: recreate ticks in 400ms: {n}");
        assert!((10..=24).contains(&n), "{n}");
        addr.halt().await.unwrap();
    })
}

/// behaviour change: timers that were armed by a message handler (so started() will not arm
/// them again) are silently gone after a restart of a state-preserving (RestartOnly) actor
#[test]
fn handler_armed_timers_survive_restart_only() {
    block_on(async {
        let shared = Shared::default();
        let mut addr = Timed { shared: shared.clone() }.spawn();
        addr.send(ArmFromHandler).await.unwrap();
        sleep(ms(60)).await;
        assert!(shared.handler_ticks.get() >= 1);
        addr.restart().unwrap();
        sleep(ms(60)).await;
        let n = ticks_in(&shared.handler_ticks, 200).await;
        let execs = shared.execs.get();
        println!("{RUNTIME}: handler-armed interval ticks after restart: {n}, delayed_exec ran: {execs}");
        addr.halt().await.unwrap();
        assert!(n > 0, "the interval armed by a handler died with the restart");
        assert_eq!(execs, 1, "the delayed_exec armed by a handler was dropped by the restart");
    })
}

/// neighbouring resource: children registered by started() pile up over restarts
#[derive(Debug, Default)]
struct Child(Counter);
impl Actor for Child {}
#[derive(Clone)]
#[message]
struct ToChild;
impl Handler<ToChild> for Child {
    async fn handle(&mut self, _: &mut Context<Self>, _: ToChild) {
        self.0.inc();
    }
}

#[derive(Default)]
struct Parent {
    child_msgs: Counter,
    child: Arc<Mutex<Option<Addr<Child>>>>,
}
impl RestartableActor for Parent {}
impl Actor for Parent {
    async fn started(&mut self, ctx: &mut Context<Self>) -> DynResult<()> {
        let child = self.child.lock().unwrap().clone().unwrap();
        ctx.register_child::<ToChild>(child);
        Ok(())
    }
}
#[message]
struct Fanout;
impl Handler<Fanout> for Parent {
    async fn handle(&mut self, ctx: &mut Context<Self>, _: Fanout) {
        ctx.send_to_children(ToChild);
    }
}

#[test]
fn children_not_duplicated_by_restart() {
    block_on(async {
        let child_msgs = Counter::default();
        let child = Child(child_msgs.clone()).spawn();
        let parent = Parent {
            child_msgs: child_msgs.clone(),
            child: Arc::new(Mutex::new(Some(child.clone()))),
        };
        let mut addr = parent.spawn();
        addr.restart().unwrap();
        addr.restart().unwrap();
        addr.call(Fanout).await.unwrap();
        child.ping().await.unwrap();
        let n = child_msgs.get();
        println!("{RUNTIME}: child received {n} copies of one fan-out after 2 restarts");
        assert_eq!(n, 1, "children of earlier incarnations are still registered");
    })
}

/// code written against the old behaviour had to guard its timers against being armed twice;
/// with a state-preserving restart such an actor now silently loses its timer
#[derive(Debug, Default)]
struct Guarded {
    armed: bool,
    ticks: Counter,
}
impl RestartableActor for Guarded {}
impl Actor for Guarded {
    async fn started(&mut self, ctx: &mut Context<Self>) -> DynResult<()> {
        if !self.armed {
            ctx.interval(Tick, ms(20));
            self.armed = true;
        }
        Ok(())
    }
}
impl Handler<Tick> for Guarded {
    async fn handle(&mut self, _: &mut Context<Self>, _: Tick) {
        self.ticks.inc();
    }
}

#[test]
fn guarded_timer_survives_restart_only() {
    block_on(async {
        let ticks = Counter::default();
        let mut addr = Guarded { armed: false, ticks: ticks.clone() }.spawn();
        sleep(ms(60)).await;
        addr.restart().unwrap();
        sleep(ms(60)).await;
        let n = ticks_in(&ticks, 200).await;
        println!("{RUNTIME}: guarded interval ticks after restart: {n}");
        addr.halt().await.unwrap();
        assert!(n > 0, "the once-armed interval is gone after the restart");
    })
}

/// the abort happens after stopped(): ticks of the old incarnation's timer that fire while
/// stopped() runs are still delivered to the next incarnation
static STALE: std::sync::LazyLock<Counter> = std::sync::LazyLock::new(Counter::default);
static GEN: std::sync::atomic::AtomicUsize = std::sync::atomic::AtomicUsize::new(0);
#[derive(Debug)]
struct Gen(usize);
impl Default for Gen {
    fn default() -> Self {
        Gen(GEN.fetch_add(1, std::sync::atomic::Ordering::SeqCst) + 1)
    }
}
#[derive(Clone)]
#[message]
struct GenTick(usize);
impl RestartableActor for Gen {}
impl Actor for Gen {
    async fn started(&mut self, ctx: &mut Context<Self>) -> DynResult<()> {
        ctx.interval(GenTick(self.0), ms(10));
        Ok(())
    }
    async fn stopped(&mut self, _: &mut Context<Self>) {
        sleep(ms(100)).await; // e.g. flushing something
    }
}
impl Handler<GenTick> for Gen {
    async fn handle(&mut self, _: &mut Context<Self>, t: GenTick) {
        if t.0 != self.0 {
            STALE.inc();
        }
    }
}

#[test]
fn no_stale_ticks_reach_the_next_incarnation() {
    block_on(async {
        let mut addr = hannibal::build(Gen::default()).unbounded().recreate_from_default().spawn();
        sleep(ms(50)).await;
        addr.restart().unwrap();
        sleep(ms(300)).await;
        let n = STALE.get();
        println!("{RUNTIME}: ticks of the previous incarnation handled by the new one: {n}");
        drop(addr);
        assert_eq!(n, 0);
    })
}
