//! probes for 29cd8e2 (Caller / WeakCaller keep the forcing half of the channel alive)
mod review_util;
use review_util::*;

use hannibal::{Caller, RestartableActor, WeakAddr, WeakCaller, prelude::*};

#[derive(Clone, Debug, Default)]
struct Shared {
    ticks: Counter,
    started: Counter,
    stopped: Counter,
}

#[derive(Debug, Default)]
struct Act {
    shared: Shared,
}
impl RestartableActor for Act {}
impl Actor for Act {
    async fn started(&mut self, ctx: &mut Context<Self>) -> DynResult<()> {
        self.shared.started.inc();
        ctx.interval(Tick, ms(20));
        Ok(())
    }
    async fn stopped(&mut self, _: &mut Context<Self>) {
        self.shared.stopped.inc();
    }
}
#[derive(Clone)]
#[message]
struct Tick;
impl Handler<Tick> for Act {
    async fn handle(&mut self, _: &mut Context<Self>, _: Tick) {
        self.shared.ticks.inc();
    }
}

#[derive(Debug, PartialEq)]
struct Report {
    weak_addr: bool,
    weak_sender: bool,
    weak_caller: bool,
    weak_caller_call: bool,
}
#[message(response = Report)]
struct Introspect;
impl Handler<Introspect> for Act {
    async fn handle(&mut self, ctx: &mut Context<Self>, _: Introspect) -> Report {
        Report {
            weak_addr: ctx.weak_address().and_then(|w| w.upgrade()).is_some(),
            weak_sender: ctx.weak_sender::<Tick>().upgrade().is_some(),
            weak_caller: ctx.weak_caller::<Introspect, _>().upgrade().is_some(),
            weak_caller_call: false,
        }
    }
}
#[message(response = bool)]
struct StopYourself;
impl Handler<StopYourself> for Act {
    async fn handle(&mut self, ctx: &mut Context<Self>, _: StopYourself) -> bool {
        ctx.stop().is_ok()
    }
}
#[message(response = bool)]
struct RestartYourself;
impl Handler<RestartYourself> for Act {
    async fn handle(&mut self, ctx: &mut Context<Self>, _: RestartYourself) -> bool {
        ctx.restart().is_ok()
    }
}

const ALL: Report = Report {
    weak_addr: true,
    weak_sender: true,
    weak_caller: true,
    weak_caller_call: false,
};

async fn ticks_in(c: &Counter, d: u64) -> usize {
    let before = c.get();
    sleep(ms(d)).await;
    c.get() - before
}

#[test]
fn only_a_caller_left() {
    block_on(async {
        let shared = Shared::default();
        let addr = Act { shared: shared.clone() }.spawn();
        let weak: WeakAddr<Act> = addr.downgrade();
        let weak_sender = addr.weak_sender::<Tick>();
        let caller: Caller<Introspect> = addr.caller();
        let restart: Caller<RestartYourself> = addr.caller();
        let stop: WeakCaller<StopYourself> = addr.weak_caller();
        drop(addr);
        drop(restart.clone());
        assert_eq!(caller.call(Introspect).await, Ok(ALL));
        assert!(weak.upgrade().is_some());
        assert!(weak_sender.upgrade().is_some());
        assert!(ticks_in(&shared.ticks, 200).await >= 5);
        assert_eq!(restart.call(RestartYourself).await, Ok(true));
        sleep(ms(50)).await;
        assert_eq!(shared.started.get(), 2);
        assert!(ticks_in(&shared.ticks, 200).await >= 5);
        drop(restart);
        assert_eq!(stop.try_call(StopYourself).await, Ok(true));
        sleep(ms(50)).await;
        assert_eq!(shared.stopped.get(), 2);
        assert!(weak.stopped());
        assert!(caller.call(Introspect).await.is_err());
    })
}

#[test]
fn only_a_cloned_caller_or_upgraded_weak_caller_left() {
    block_on(async {
        let shared = Shared::default();
        let addr = Act { shared: shared.clone() }.spawn();
        let weak = addr.downgrade();
        let original: Caller<Introspect> = addr.caller();
        let cloned = original.clone();
        drop(original);
        drop(addr);
        assert_eq!(cloned.call(Introspect).await, Ok(ALL));
        let upgraded = cloned.downgrade().upgrade().unwrap();
        drop(cloned);
        assert_eq!(upgraded.call(Introspect).await, Ok(ALL));
        assert!(weak.upgrade().is_some());
        // the context's weak caller, upgraded from outside... not reachable; use a fresh weak
        let w2 = upgraded.downgrade();
        let w3 = w2.clone();
        drop(upgraded);
        sleep(ms(50)).await;
        assert!(w2.upgrade().is_none());
        assert!(w3.upgrade().is_none());
        assert!(weak.upgrade().is_none());
        assert_eq!(shared.stopped.get(), 1, "dropping the last caller must stop the actor");
    })
}

#[test]
fn only_a_sender_left() {
    block_on(async {
        let shared = Shared::default();
        let addr = Act { shared: shared.clone() }.spawn();
        let weak = addr.downgrade();
        let weak_caller = addr.weak_caller::<Introspect>();
        let sender = addr.sender::<Tick>();
        drop(addr);
        assert_eq!(weak_caller.try_call(Introspect).await, Ok(ALL));
        assert!(weak.upgrade().is_some());
        drop(sender);
        sleep(ms(50)).await;
        assert!(weak_caller.upgrade().is_none());
        assert_eq!(shared.stopped.get(), 1);
    })
}

/// a call that is in flight while its caller is the last strong handle
#[derive(Debug, Default)]
struct Slow;
impl Actor for Slow {}
#[message(response = Report)]
struct SlowIntrospect;
impl Handler<SlowIntrospect> for Slow {
    async fn handle(&mut self, ctx: &mut Context<Self>, _: SlowIntrospect) -> Report {
        sleep(ms(100)).await;
        Report {
            weak_addr: ctx.weak_address().and_then(|w| w.upgrade()).is_some(),
            weak_sender: true,
            weak_caller: ctx.weak_caller::<SlowIntrospect, _>().upgrade().is_some(),
            weak_caller_call: ctx.stop().is_ok(),
        }
    }
}

#[test]
fn weak_caller_try_call_in_flight_is_the_last_strong_handle() {
    block_on(async {
        let addr = Slow.spawn();
        let weak_caller = addr.weak_caller::<SlowIntrospect>();
        let call = weak_caller.try_call(SlowIntrospect);
        let dropper = async move {
            sleep(ms(30)).await;
            drop(addr);
        };
        let (res, _) = futures::join!(call, dropper);
        println!("{RUNTIME}: {res:?}");
        let res = res.unwrap();
        assert!(res.weak_addr && res.weak_caller && res.weak_caller_call, "{res:?}");
    })
}

/// neighbouring path: the boxed, 'static future returned by `Sender::send` carries only a clone
/// of the waiting mpsc half. While it is the last thing keeping the channel open the actor is in
/// exactly the state 29cd8e2 describes: alive, but its forcing half is gone.
#[message]
struct Probe(std::sync::Arc<std::sync::Mutex<Option<(bool, bool)>>>);
impl Handler<Probe> for Act {
    async fn handle(&mut self, ctx: &mut Context<Self>, p: Probe) {
        *p.0.lock().unwrap() = Some((ctx.weak_address().is_some(), ctx.stop().is_ok()));
    }
}

#[test]
fn pending_send_future_is_the_last_thing_keeping_the_actor() {
    block_on(async {
        let shared = Shared::default();
        let addr = Act { shared: shared.clone() }.spawn();
        addr.ping().await.unwrap();
        let sender = addr.sender::<Probe>();
        let seen = std::sync::Arc::new(std::sync::Mutex::new(None));
        let pending = sender.send(Probe(seen.clone())); // not polled yet
        drop(sender);
        drop(addr);
        sleep(ms(100)).await;
        assert_eq!(shared.stopped.get(), 0, "the actor is (rightly) still alive: a message is on its way");
        let ticks = ticks_in(&shared.ticks, 200).await;
        pending.await.unwrap();
        sleep(ms(50)).await;
        let seen = seen.lock().unwrap().take();
        println!("{RUNTIME}: ticks while only the send future was left: {ticks}; handler saw (weak_address, ctx.stop ok) = {seen:?}");
        assert!(ticks >= 5, "the actor's interval died although the actor is alive");
        assert_eq!(seen, Some((true, true)));
    })
}
