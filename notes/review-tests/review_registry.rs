//! probes for 8edf710 (registry lock is released before the debug-build ping)
mod review_util;
use review_util::*;

use hannibal::{Broker, Service, prelude::*};

static LOG: std::sync::Mutex<Vec<&'static str>> = std::sync::Mutex::new(Vec::new());

#[derive(Debug, Default)]
struct Inner;
impl Actor for Inner {}
impl Service for Inner {}

#[derive(Debug, Default)]
struct Outer;
impl Actor for Outer {
    async fn started(&mut self, _: &mut Context<Self>) -> DynResult<()> {
        Inner::from_registry().await.ping().await?;
        assert_eq!(Inner::already_running().await, Some(true));
        assert_eq!(Outer::already_running().await, Some(true));
        Ok(())
    }
}
impl Service for Outer {}

#[test]
fn started_looks_up_another_service() {
    block_on(async {
        let addr = timeout(ms(2000), Outer::from_registry()).await.expect("registry deadlock");
        addr.ping().await.unwrap();
    })
}

// mutual lookup
#[derive(Debug, Default)]
struct Ping;
#[derive(Debug, Default)]
struct Pong;
impl Actor for Ping {
    async fn started(&mut self, _: &mut Context<Self>) -> DynResult<()> {
        let _pong = Pong::from_registry().await;
        Ok(())
    }
}
impl Actor for Pong {
    async fn started(&mut self, _: &mut Context<Self>) -> DynResult<()> {
        let _ping = Ping::from_registry().await;
        Ok(())
    }
}
impl Service for Ping {}
impl Service for Pong {}

#[test]
fn mutual_lookup() {
    block_on(async {
        let addr = timeout(ms(2000), Ping::from_registry()).await.expect("registry deadlock");
        addr.ping().await.unwrap();
        Pong::from_registry().await.ping().await.unwrap();
    })
}

// looks itself up
#[derive(Debug, Default)]
struct Narcissus;
impl Actor for Narcissus {
    async fn started(&mut self, _: &mut Context<Self>) -> DynResult<()> {
        let me = Self::from_registry().await;
        assert!(me.running());
        Ok(())
    }
}
impl Service for Narcissus {}
#[test]
fn self_lookup() {
    block_on(async {
        let addr = timeout(ms(2000), Narcissus::from_registry()).await.expect("registry deadlock");
        addr.ping().await.unwrap();
    })
}

// a service that subscribes to the broker in started()
#[derive(Clone)]
#[message]
struct Topic(u32);
#[derive(Debug, Default)]
struct Listener(u32);
impl Actor for Listener {
    async fn started(&mut self, ctx: &mut Context<Self>) -> DynResult<()> {
        ctx.subscribe::<Topic>().await?;
        Ok(())
    }
}
impl Handler<Topic> for Listener {
    async fn handle(&mut self, _: &mut Context<Self>, t: Topic) {
        self.0 += t.0;
    }
}
#[message(response = u32)]
struct Get;
impl Handler<Get> for Listener {
    async fn handle(&mut self, _: &mut Context<Self>, _: Get) -> u32 {
        self.0
    }
}
impl Service for Listener {}

#[test]
fn service_subscribes_in_started() {
    block_on(async {
        let addr = timeout(ms(2000), Listener::from_registry()).await.expect("registry deadlock");
        addr.ping().await.unwrap();
        {
            Broker::publish(Topic(5)).await.unwrap();
            sleep(ms(50)).await;
            assert_eq!(addr.call(Get).await, Ok(5));
        }
    })
}

// slow start: concurrent callers, setup(), try_from_registry
#[derive(Debug, Default)]
struct SlowStart;
impl Actor for SlowStart {
    async fn started(&mut self, _: &mut Context<Self>) -> DynResult<()> {
        LOG.lock().unwrap().push("started begin");
        sleep(ms(150)).await;
        LOG.lock().unwrap().push("started end");
        Ok(())
    }
}
impl Service for SlowStart {}

#[test]
fn concurrent_lookups_while_starting() {
    block_on(async {
        let first = async {
            let a = SlowStart::from_registry().await;
            LOG.lock().unwrap().push("first got addr");
            a
        };
        let second = async {
            sleep(ms(30)).await;
            let seen_sync = SlowStart::try_from_registry().is_some();
            let a = SlowStart::from_registry().await;
            LOG.lock().unwrap().push("second got addr");
            (a, seen_sync)
        };
        let (a, (b, seen_sync)) = futures::join!(first, second);
        let log = LOG.lock().unwrap().clone();
        println!("{RUNTIME}: try_from_registry during start: {seen_sync}; log: {log:?}");
        a.ping().await.unwrap();
        b.ping().await.unwrap();
        // exactly one instance
        assert_eq!(log.iter().filter(|l| **l == "started begin").count(), 1);
    })
}

// a service whose first start fails
static ATTEMPTS: std::sync::atomic::AtomicUsize = std::sync::atomic::AtomicUsize::new(0);
#[derive(Debug, Default)]
struct Flaky;
impl Actor for Flaky {
    async fn started(&mut self, _: &mut Context<Self>) -> DynResult<()> {
        if ATTEMPTS.fetch_add(1, std::sync::atomic::Ordering::SeqCst) == 0 {
            Err("first start fails".into())
        } else {
            Ok(())
        }
    }
}
impl Service for Flaky {}

#[test]
fn failing_first_start() {
    let first = std::panic::catch_unwind(|| {
        block_on(async {
            let a = timeout(ms(2000), Flaky::from_registry()).await.expect("hang");
            a.ping().await.is_ok()
        })
    });
    println!("{RUNTIME}: first from_registry of a service whose started() fails: {first:?}");
    block_on(async {
        // the registry must still be usable and hand out a working instance
        let a = timeout(ms(2000), Flaky::from_registry()).await.expect("registry stuck");
        assert!(a.ping().await.is_ok());
        assert_eq!(Flaky::already_running().await, Some(true));
    })
}
