//! probes for 5a6e359 (ActorHandle detaches on drop), 5e94601 (join of a panicked actor),
//! 7b4e532 (dropping a pending join future), daf0619 (join future created before the owner went)
mod review_util;
use review_util::*;

use hannibal::{prelude::*, spawner::SpawnableWith};

#[derive(Debug, Default)]
struct Probe {
    started: Counter,
    stopped: Counter,
    handled: Counter,
}
impl Actor for Probe {
    async fn started(&mut self, _: &mut Context<Self>) -> DynResult<()> {
        self.started.inc();
        Ok(())
    }
    async fn stopped(&mut self, _: &mut Context<Self>) {
        self.stopped.inc();
    }
}
#[message(response = usize)]
struct Hit;
impl Handler<Hit> for Probe {
    async fn handle(&mut self, _: &mut Context<Self>, _: Hit) -> usize {
        self.handled.inc() + 1
    }
}
#[message]
struct Boom;
impl Handler<Boom> for Probe {
    async fn handle(&mut self, _: &mut Context<Self>, _: Boom) {
        panic!("boom (intended)");
    }
}
impl StreamHandler<u32> for Probe {
    async fn handle(&mut self, _: &mut Context<Self>, _: u32) {
        self.handled.inc();
    }
}

fn probe() -> (Probe, Counter, Counter) {
    let p = Probe::default();
    let (a, b) = (p.started.clone(), p.stopped.clone());
    (p, a, b)
}

#[test]
fn drop_owning_with_other_addr_keeps_actor() {
    block_on(async {
        let (p, _started, stopped) = probe();
        let owning = p.spawn_owning();
        let addr = owning.to_addr();
        drop(owning);
        sleep(ms(50)).await;
        assert_eq!(addr.call(Hit).await, Ok(1));
        assert_eq!(stopped.get(), 0);
        addr.halt().await.unwrap();
        assert_eq!(stopped.get(), 1);
    })
}

#[test]
fn drop_owning_last_ref_stops_gracefully() {
    block_on(async {
        let (p, started, stopped) = probe();
        let owning = p.spawn_owning();
        owning.ping().await.unwrap();
        drop(owning);
        sleep(ms(100)).await;
        assert_eq!(started.get(), 1);
        assert_eq!(stopped.get(), 1, "stopped() must run when the last handle is dropped");
    })
}

#[test]
fn drop_owning_last_ref_immediately_still_runs_lifecycle() {
    block_on(async {
        let (p, started, stopped) = probe();
        let owning = p.spawn_owning();
        drop(owning);
        sleep(ms(100)).await;
        assert_eq!((started.get(), stopped.get()), (1, 1));
    })
}

#[test]
fn spawn_with_handle_dropped_keeps_actor() {
    block_on(async {
        let (p, _started, stopped) = probe();
        let (addr, handle) = p.spawn_with::<hannibal::spawner::DefaultSpawner>();
        drop(handle);
        sleep(ms(50)).await;
        assert_eq!(addr.call(Hit).await, Ok(1));
        addr.halt().await.unwrap();
        assert_eq!(stopped.get(), 1);
    })
}

#[test]
fn stream_builder_spawn_keeps_actor() {
    block_on(async {
        let (p, _started, stopped) = probe();
        let addr = hannibal::build(p)
            .on_stream(futures::stream::pending::<u32>())
            .spawn();
        sleep(ms(50)).await;
        assert_eq!(addr.call(Hit).await, Ok(1));
        addr.halt().await.unwrap();
        assert_eq!(stopped.get(), 1);
    })
}

#[test]
fn join_future_before_drop_yields_actor() {
    block_on(async {
        let (p, ..) = probe();
        let mut owning = p.spawn_owning();
        let mut addr = owning.to_addr();
        let join = owning.join();
        drop(owning);
        addr.stop().unwrap();
        let got = timeout(ms(500), join).await.expect("join hangs");
        assert!(got.is_some());
    })
}

#[test]
fn join_future_before_detach_yields_actor() {
    block_on(async {
        let (p, ..) = probe();
        let mut owning = p.spawn_owning();
        let join = owning.join();
        let mut addr = owning.detach();
        addr.stop().unwrap();
        let got = timeout(ms(500), join).await.expect("join hangs");
        assert!(got.is_some());
    })
}

#[test]
fn consume_sync_yields_actor() {
    block_on(async {
        let (p, ..) = probe();
        let owning = p.spawn_owning();
        let join = owning.consume_sync().unwrap();
        let got = timeout(ms(500), join).await.expect("join hangs");
        assert!(got.is_some());
    })
}

#[test]
fn dropping_pending_join_keeps_actor_and_second_join_is_none() {
    block_on(async {
        let (p, _started, stopped) = probe();
        let mut owning = p.spawn_owning();
        owning.ping().await.unwrap();
        assert!(timeout(ms(50), owning.join()).await.is_none());
        // actor is still there
        assert_eq!(owning.call(Hit).await, Ok(1));
        assert_eq!(stopped.get(), 0);
        // the task handle is gone on every runtime
        let res = owning.consume().await;
        println!("{RUNTIME}: consume after dropped pending join: {:?}", res.as_ref().map(|_| ()));
        assert!(res.is_err());
        sleep(ms(50)).await;
        assert_eq!(stopped.get(), 1);
    })
}

#[test]
fn unpolled_join_future_dropped_keeps_handle() {
    block_on(async {
        let (p, ..) = probe();
        let mut owning = p.spawn_owning();
        drop(owning.join()); // never polled
        let got = owning.consume().await;
        assert!(got.is_ok());
    })
}

#[test]
fn two_join_futures_first_polled_wins() {
    block_on(async {
        let (p, ..) = probe();
        let mut owning = p.spawn_owning();
        let mut addr = owning.to_addr();
        let j1 = owning.join();
        let j2 = owning.join();
        addr.stop().unwrap();
        let b = j2.await;
        let a = j1.await;
        println!("{RUNTIME}: j2 {:?} j1 {:?}", b.is_some(), a.is_some());
        assert!(b.is_some());
        assert!(a.is_none());
    })
}

#[test]
fn join_after_panic_is_none() {
    block_on(async {
        let (p, ..) = probe();
        let mut owning = p.spawn_owning();
        let _ = owning.send(Boom).await;
        let got = timeout(ms(1000), owning.join()).await.expect("join hangs");
        assert!(got.is_none());
        assert!(owning.as_addr().stopped());
        assert!(owning.call(Hit).await.is_err());
    })
}

#[test]
fn consume_after_panic_is_already_stopped() {
    block_on(async {
        let (p, ..) = probe();
        let owning = p.spawn_owning();
        let _ = owning.send(Boom).await;
        sleep(ms(50)).await;
        let got = timeout(ms(1000), owning.consume()).await.expect("hangs");
        assert_eq!(got.map(|_| ()), Err(hannibal::error::ActorError::AlreadyStopped));
    })
}

#[test]
fn join_pending_when_panic_happens() {
    block_on(async {
        let (p, ..) = probe();
        let mut owning = p.spawn_owning();
        let addr = owning.to_addr();
        let join = owning.join();
        let sender = async move {
            sleep(ms(50)).await;
            let _ = addr.send(Boom).await;
        };
        let (got, _) = futures::join!(timeout(ms(1000), join), sender);
        assert_eq!(got.expect("join hangs").is_none(), true);
    })
}

#[derive(Debug, Default)]
struct PanicInStarted;
impl Actor for PanicInStarted {
    async fn started(&mut self, _: &mut Context<Self>) -> DynResult<()> {
        panic!("panic in started (intended)")
    }
}
#[derive(Debug, Default)]
struct PanicInStopped;
impl Actor for PanicInStopped {
    async fn stopped(&mut self, _: &mut Context<Self>) {
        panic!("panic in stopped (intended)")
    }
}

#[test]
fn panic_in_started_join_none() {
    block_on(async {
        let mut owning = PanicInStarted.spawn_owning();
        let got = timeout(ms(1000), owning.join()).await.expect("join hangs");
        assert!(got.is_none());
        assert!(owning.as_addr().stopped());
    })
}

#[test]
fn panic_in_stopped_consume_err() {
    block_on(async {
        let owning = PanicInStopped.spawn_owning();
        let addr = owning.to_addr();
        let got = timeout(ms(1000), owning.consume()).await.expect("hangs");
        assert!(got.is_err());
        assert!(addr.stopped());
        assert!(addr.await.is_err());
    })
}

#[test]
fn stream_owning_join_after_stream_end() {
    block_on(async {
        let (p, ..) = probe();
        let mut owning = hannibal::build(p)
            .on_stream(futures::stream::iter(0..10u32))
            .spawn_owning();
        let got = timeout(ms(500), owning.join()).await.expect("hangs").unwrap();
        assert_eq!(got.handled.get(), 10);
    })
}

#[test]
fn polled_pending_join_survives_owner_drop_and_detach() {
    block_on(async {
        for detach in [false, true] {
            let (p, ..) = probe();
            let mut owning = p.spawn_owning();
            let mut join = owning.join();
            assert!(futures::poll!(&mut join).is_pending());
            sleep(ms(20)).await;
            assert!(futures::poll!(&mut join).is_pending());
            let mut addr = if detach { owning.detach() } else { let a = owning.to_addr(); drop(owning); a };
            assert_eq!(addr.call(Hit).await, Ok(1));
            addr.stop().unwrap();
            let got = timeout(ms(500), join).await.expect("join hangs");
            assert!(got.is_some());
        }
    })
}
