//! probes for eb25cc3 (OwningAddr::consume on an actor that already stopped gracefully)
mod review_util;
use review_util::*;

use hannibal::{error::ActorError, prelude::*};

#[derive(Debug, Default, PartialEq)]
struct Plain(u32);
impl Actor for Plain {}
#[message]
struct Die;
impl Handler<Die> for Plain {
    async fn handle(&mut self, ctx: &mut Context<Self>, _: Die) {
        self.0 += 1;
        ctx.stop().unwrap();
    }
}
impl StreamHandler<u32> for Plain {
    async fn handle(&mut self, _: &mut Context<Self>, n: u32) {
        self.0 += n;
    }
}

#[derive(Debug, Default)]
struct FailsToStart;
impl Actor for FailsToStart {
    async fn started(&mut self, _: &mut Context<Self>) -> DynResult<()> {
        Err("nope".into())
    }
}

#[test]
fn consume_after_self_stop() {
    block_on(async {
        let owning = Plain(1).spawn_owning();
        owning.send(Die).await.unwrap();
        sleep(ms(50)).await;
        assert!(owning.as_addr().stopped());
        assert_eq!(owning.consume().await, Ok(Plain(2)));
    })
}

#[test]
fn consume_after_stop_elsewhere() {
    block_on(async {
        let owning = Plain(1).spawn_owning();
        owning.to_addr().halt().await.unwrap();
        assert_eq!(owning.consume().await, Ok(Plain(1)));
    })
}

#[test]
fn consume_after_stream_finished() {
    block_on(async {
        let owning = hannibal::build(Plain(0))
            .on_stream(futures::stream::iter(1..=4u32))
            .spawn_owning();
        sleep(ms(50)).await;
        assert!(owning.as_addr().stopped());
        assert_eq!(owning.consume().await, Ok(Plain(10)));
    })
}

#[test]
fn consume_failed_start() {
    block_on(async {
        let owning = FailsToStart.spawn_owning();
        sleep(ms(50)).await;
        assert_eq!(
            owning.consume().await.map(|_| ()),
            Err(ActorError::AlreadyStopped)
        );
    })
}

#[test]
fn consume_after_join_taken() {
    block_on(async {
        let mut owning = Plain(1).spawn_owning();
        owning.send(Die).await.unwrap();
        assert_eq!(owning.join().await, Some(Plain(2)));
        let res = owning.consume().await;
        println!("{RUNTIME}: consume after join: {res:?}");
        assert!(res.is_err());
    })
}

/// the sibling: consume_sync on an actor that already stopped gracefully
#[test]
fn consume_sync_after_self_stop() {
    block_on(async {
        let owning = Plain(1).spawn_owning();
        owning.send(Die).await.unwrap();
        sleep(ms(50)).await;
        let res = owning.consume_sync();
        match res {
            Ok(join) => assert_eq!(join.await, Some(Plain(2))),
            Err(e) => panic!("consume_sync threw the finished actor away: {e:?}"),
        }
    })
}

/// the sibling: halt on an address of an actor that already stopped gracefully
#[test]
fn halt_after_self_stop() {
    block_on(async {
        let addr = Plain(1).spawn();
        addr.send(Die).await.unwrap();
        sleep(ms(50)).await;
        let res = addr.halt().await;
        println!("{RUNTIME}: halt after graceful self stop: {res:?}");
    })
}
