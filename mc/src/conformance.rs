//! Binds the runtime shims (src/verif.rs in the repository) to the real runtimes: a suite of
//! micro-programs over hannibal's own `Spawner` API is run (a) unhooked on the real runtime
//! and (b) on the shim under the controlled executor with all schedules; the real observation
//! must be one of the explored ones, and deterministic programs must agree exactly.

use std::{
    cell::RefCell,
    collections::BTreeSet,
    rc::Rc,
    sync::{
        atomic::{AtomicBool, AtomicU32, Ordering},
        Arc,
    },
    time::Duration,
};

use hannibal::spawner::{DefaultSpawner, Spawner};

use crate::{
    vexec::{self, ChoiceRec, Control, ExecCfg},
    world::{self, RoleCfg, P},
};

#[derive(Clone, Copy, Debug, PartialEq, Eq)]
enum CP {
    Join,
    JoinTwice,
    DropHandle,
    Detach,
    PanicJoin,
    ErrJoin,
    SpawnFuture,
    SleepOrder,
    DropHandleThenJoinNever,
    /// a join future is polled once (pending) and dropped: does the task survive?
    DropPendingJoin,
    /// the runtime's own task handle is polled again after it has completed (tokio: a panic)
    RepollTaskHandle,
    /// a task polls the handles of many finished tasks in one go: can the first poll of a
    /// finished task's handle answer Pending? (tokio: yes, once the polling task has used up its
    /// cooperative budget; the others: never.) The shim offers it as a choice per handle, so the
    /// controlled run polls one handle where the real one polls 200.
    BudgetOnJoin,
}

const ALL: [CP; 12] = [
    CP::BudgetOnJoin,
    CP::Join,
    CP::JoinTwice,
    CP::DropHandle,
    CP::Detach,
    CP::PanicJoin,
    CP::ErrJoin,
    CP::SpawnFuture,
    CP::SleepOrder,
    CP::DropHandleThenJoinNever,
    CP::DropPendingJoin,
    CP::RepollTaskHandle,
];

fn ms(t: u64) -> Duration {
    Duration::from_millis(t)
}

async fn sleep(t: u64) {
    <DefaultSpawner as Spawner<P>>::sleep(ms(t)).await
}

async fn run_cp(cp: CP) -> String {
    use futures::FutureExt as _;
    let flag = Arc::new(AtomicBool::new(false));
    let f2 = flag.clone();
    let body = move |fail: u8| async move {
        sleep(10).await;
        f2.store(true, Ordering::SeqCst);
        match fail {
            1 => std::panic::panic_any(world::Injected),
            2 => Err("injected".into()),
            _ => Ok(P::new(0)),
        }
    };
    match cp {
        CP::BudgetOnJoin => {
            let n = if hannibal::verif::installed() { 1 } else { 200 };
            let mut hs: Vec<_> = (0..n).map(|_| <DefaultSpawner as Spawner<P>>::spawn_actor(async { Ok(P::new(0)) })).collect();
            sleep(20).await;
            let mut pending = 0;
            for h in hs.iter_mut() {
                if h.join().now_or_never().flatten().is_none() {
                    pending += 1;
                }
            }
            format!("first-poll-of-a-finished-task-can-be-pending={}", pending > 0)
        }
        CP::RepollTaskHandle => {
            #[cfg(feature = "rt-tokio")]
            {
                // (through the shim's own spawn: the real tokio::spawn when no backend is installed)
                let mut h = hannibal::verif::tokio_shim::spawn(async { 7u8 });
                let first = (&mut h).await.is_ok();
                let again = match std::panic::AssertUnwindSafe(&mut h).catch_unwind().await {
                    Ok(r) => if r.is_ok() { "ok" } else { "err" },
                    Err(_) => "panic",
                };
                format!("first={first} again={again}")
            }
            #[cfg(not(feature = "rt-tokio"))]
            {
                "not applicable".to_string()
            }
        }
        CP::Join => {
            let mut h = <DefaultSpawner as Spawner<P>>::spawn_actor(body(0));
            format!("join={}", h.join().await.is_some())
        }
        CP::JoinTwice => {
            let mut h = <DefaultSpawner as Spawner<P>>::spawn_actor(body(0));
            let a = h.join().await.is_some();
            let b = h.join().await.is_some();
            format!("join1={a} join2={b}")
        }
        CP::DropHandle => {
            let h = <DefaultSpawner as Spawner<P>>::spawn_actor(body(0));
            drop(h);
            sleep(60).await;
            format!("ran={}", flag.load(Ordering::SeqCst))
        }
        CP::Detach => {
            let h = <DefaultSpawner as Spawner<P>>::spawn_actor(body(0));
            h.detach();
            sleep(60).await;
            format!("ran={}", flag.load(Ordering::SeqCst))
        }
        CP::PanicJoin => {
            let mut h = <DefaultSpawner as Spawner<P>>::spawn_actor(body(1));
            match std::panic::AssertUnwindSafe(h.join()).catch_unwind().await {
                Ok(r) => format!("join={}", r.is_some()),
                Err(_) => "joiner-panicked".to_string(),
            }
        }
        CP::ErrJoin => {
            let mut h = <DefaultSpawner as Spawner<P>>::spawn_actor(body(2));
            format!("join={}", h.join().await.is_some())
        }
        CP::SpawnFuture => {
            let f3 = flag.clone();
            <DefaultSpawner as Spawner<P>>::spawn_future(async move {
                sleep(10).await;
                f3.store(true, Ordering::SeqCst);
            });
            sleep(60).await;
            format!("ran={}", flag.load(Ordering::SeqCst))
        }
        CP::SleepOrder => {
            let order = Arc::new(AtomicU32::new(0));
            let (o1, o2) = (order.clone(), order.clone());
            <DefaultSpawner as Spawner<P>>::spawn_future(async move {
                sleep(40).await;
                let _ = o1.compare_exchange(0, 40, Ordering::SeqCst, Ordering::SeqCst);
            });
            <DefaultSpawner as Spawner<P>>::spawn_future(async move {
                sleep(10).await;
                let _ = o2.compare_exchange(0, 10, Ordering::SeqCst, Ordering::SeqCst);
            });
            sleep(90).await;
            format!("first={}", order.load(Ordering::SeqCst))
        }
        CP::DropPendingJoin => {
            let (tx, rx) = futures::channel::oneshot::channel::<()>();
            let f3 = flag.clone();
            let mut h = <DefaultSpawner as Spawner<P>>::spawn_actor(async move {
                let _ = rx.await;
                f3.store(true, Ordering::SeqCst);
                Ok(P::new(0))
            });
            sleep(5).await;
            let mut j = h.join();
            // two polls: the first may only get as far as the handle's lock
            let _ = futures::poll!(j.as_mut());
            let first = futures::poll!(j.as_mut()).is_ready();
            drop(j);
            sleep(20).await;
            let _ = tx.send(());
            sleep(20).await;
            let again = h.join().await.is_some();
            format!("ready-at-once={first} completed-after-join-dropped={} later-join={again}", flag.load(Ordering::SeqCst))
        }
        CP::DropHandleThenJoinNever => {
            // an actor-like task that only ends when told to: does dropping the handle end it?
            let (tx, rx) = futures::channel::oneshot::channel::<()>();
            let f3 = flag.clone();
            let h = <DefaultSpawner as Spawner<P>>::spawn_actor(async move {
                let _ = rx.await;
                f3.store(true, Ordering::SeqCst);
                Ok(P::new(0))
            });
            sleep(5).await;
            drop(h);
            sleep(20).await;
            let _ = tx.send(());
            sleep(20).await;
            format!("completed-after-handle-drop={}", flag.load(Ordering::SeqCst))
        }
    }
}

fn real_obs(cp: CP) -> String {
    world::reset(vec![RoleCfg::default()]);
    #[cfg(feature = "rt-tokio")]
    {
        let rt = tokio::runtime::Builder::new_current_thread().enable_all().build().expect("tokio runtime");
        let a = rt.block_on(run_cp(cp));
        drop(rt);
        let rt = tokio::runtime::Builder::new_multi_thread().worker_threads(2).enable_all().build().expect("tokio runtime");
        let b = rt.block_on(run_cp(cp));
        if a != b {
            return format!("current-thread:{a} / multi-thread:{b}");
        }
        a
    }
    #[cfg(feature = "rt-async")]
    {
        async_std::task::block_on(run_cp(cp))
    }
    #[cfg(feature = "rt-smol")]
    {
        smol::block_on(run_cp(cp))
    }
}

fn virtual_obs(cp: CP) -> Result<(BTreeSet<String>, u64), String> {
    let result: Rc<RefCell<Option<String>>> = Rc::new(RefCell::new(None));
    let r2 = result.clone();
    let setup = move |e: &vexec::Exec| {
        *r2.borrow_mut() = None;
        let r = r2.clone();
        e.spawn_client(0, async move {
            let s = run_cp(cp).await;
            *r.borrow_mut() = Some(s);
        });
    };
    let budget = cp == CP::BudgetOnJoin;
    let cfg = ExecCfg { horizon: 500, coop_is_choice: budget, yield_at_lock: !budget, ..ExecCfg::default() };
    let set = RefCell::new(BTreeSet::new());
    let last = RefCell::new(String::new());
    let mut run = |prefix: &[ChoiceRec]| {
        world::reset(vec![RoleCfg::default()]);
        let res = vexec::run_one(&cfg, prefix, None, &setup, &world::begin_teardown);
        let s = result.borrow().clone().unwrap_or_else(|| "unresolved".into());
        let h = world::hash_of(&s);
        *last.borrow_mut() = s;
        (res, h)
    };
    let mut visit = |_r: &vexec::ExecResult| {
        set.borrow_mut().insert(last.borrow().clone());
        Control::Continue
    };
    let stats = vexec::explore(None, None, 2, None, None, None, &mut run, &mut visit).map_err(|e| format!("{e:?}"))?;
    Ok((set.into_inner(), stats.schedules))
}

// ------------------------------------------------------------------ the runtime's entry point
//
// The controlled executor takes the place of the runtime, so one assumption of the model cannot
// be explored: that spawned actors run *independently of the future that spawned them*. It is
// checked here, on the real runtime and through hannibal's own entry point `runtime::block_on`
// (what `#[hannibal::main]` expands to): the caller's future waits synchronously - it does not
// yield - for a sign of life from an actor it has just sent a message to. On every supported
// runtime the sign arrives.

struct Beacon(Option<std::sync::mpsc::Sender<u32>>);
impl hannibal::Actor for Beacon {}
struct Light(u32);
impl hannibal::Message for Light {
    type Response = ();
}
impl hannibal::Handler<Light> for Beacon {
    async fn handle(&mut self, _: &mut hannibal::Context<Self>, m: Light) {
        if let Some(tx) = &self.0 {
            let _ = tx.send(m.0);
        }
    }
}

fn entry_point_obs() -> String {
    use hannibal::prelude::*;
    let (tx, rx) = std::sync::mpsc::channel::<u32>();
    let out = std::sync::Arc::new(std::sync::Mutex::new(String::from("block_on did not run the future")));
    let out2 = out.clone();
    let _ = hannibal::runtime::block_on(async move {
        let addr = Beacon(Some(tx)).spawn();
        let sent = addr.send(Light(7)).await.is_ok();
        // a synchronous wait inside the future: the actor must not need this thread
        let seen = rx.recv_timeout(Duration::from_millis(1500)).ok();
        *out2.lock().unwrap_or_else(std::sync::PoisonError::into_inner) = format!("sent={sent} actor-answered-while-the-caller-blocked={}", seen == Some(7));
        drop(addr);
    });
    let s = out.lock().unwrap_or_else(std::sync::PoisonError::into_inner).clone();
    s
}

const ENTRY_EXPECTED: &str = "sent=true actor-answered-while-the-caller-blocked=true";

pub fn main() -> i32 {
    crate::check::quiet_panics();
    let rt = crate::props::c18::RUNTIME;
    let mut ok = true;
    let mut total = 0;
    let entry = entry_point_obs();
    let entry_ok = entry == ENTRY_EXPECTED;
    println!("conformance[{rt}] runtime::block_on entry point: {entry} {}", if entry_ok { "ok" } else { "DIFFERS FROM THE MODEL'S ASSUMPTION" });
    for cp in ALL {
        let real = real_obs(cp);
        match virtual_obs(cp) {
            Ok((set, schedules)) => {
                total += schedules;
                let fine = set.contains(&real);
                println!(
                    "conformance[{rt}] {cp:?}: real={real:?} shim={set:?} ({schedules} schedules) {}",
                    if fine { "ok" } else { "MISMATCH" }
                );
                ok &= fine;
            }
            Err(e) => {
                println!("conformance[{rt}] {cp:?}: exploration failed: {e}");
                ok = false;
            }
        }
    }
    if let Ok(f) = std::env::var("VERIF_CONFORMANCE_FILE") {
        let prev: serde_json::Value = std::fs::read_to_string(&f).ok().and_then(|s| serde_json::from_str(&s).ok()).unwrap_or(serde_json::json!({}));
        let mut m = prev.as_object().cloned().unwrap_or_default();
        let n = m.get("real_observations_reproduced").and_then(|v| v.as_u64()).unwrap_or(0) + if ok { ALL.len() as u64 } else { 0 };
        m.insert("real_observations_reproduced".into(), serde_json::json!(n));
        m.insert(rt.to_string(), serde_json::json!({"programs": ALL.len(), "shim_schedules": total, "ok": ok, "entry_point_block_on": entry, "entry_point_ok": entry_ok}));
        let _ = std::fs::write(&f, serde_json::to_string(&serde_json::Value::Object(m)).unwrap());
    }
    println!("conformance[{rt}]: {} programs, {total} shim schedules, {}", ALL.len(), if ok { "all real observations reproduced by the shim" } else { "FAILED" });
    if !ok {
        return 2;
    }
    if !entry_ok {
        // not a problem of the machinery: the library's entry point behaves differently from
        // what every other runtime does (and from what the explored model assumes)
        let _ = std::fs::create_dir_all("/verif/replays");
        let path = format!("/verif/replays/C18-{rt}-entry-point.json");
        let _ = std::fs::write(
            &path,
            serde_json::to_string_pretty(&serde_json::json!({
                "property": "C18", "flavour": rt, "key": format!("C18/{rt}/entry-point-block_on"),
                "program": "hannibal::runtime::block_on(async { let a = Beacon.spawn(); a.send(Light).await; std::sync::mpsc::Receiver::recv_timeout(1.5 s) })",
                "observed": entry, "expected": ENTRY_EXPECTED,
                "note": "re-run `./check.sh C18 quick` (runs on the real runtime; no schedule to replay)",
            }))
            .unwrap(),
        );
        println!("VIOLATION property=C18 replay={path}");
        println!("  clause=actors-run-independently-of-the-spawning-future key=C18/{rt}/entry-point-block_on :: on {rt}, through hannibal::runtime::block_on: {entry} (expected: {ENTRY_EXPECTED})");
        return 1;
    }
    0
}
