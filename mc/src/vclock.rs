//! The process clock behind a seam: while an execution of the controlled executor runs on a
//! thread, `clock_gettime` on that thread answers with the execution's virtual time (one tick =
//! one millisecond), so `std::time::Instant::now()` / `SystemTime::now()` inside the library or
//! any of its dependencies is a function of the schedule and never of the wall clock. Outside
//! executions (the explorer's own wall caps, the real-runtime cross-checks) the real clock
//! answers.
//!
//! The symbol defined here takes precedence over libc's for everything linked into this binary
//! (std included); the real clock is reached through the raw system call.

use std::cell::Cell;

thread_local! {
    /// virtual now in ticks; u64::MAX = no execution on this thread
    static VNOW: Cell<u64> = const { Cell::new(u64::MAX) };
}

/// virtual executions start at this many seconds (any fixed value far from zero)
const BASE_S: i64 = 1_000_000;

pub fn set(now_ticks: Option<u64>) {
    let _ = VNOW.try_with(|v| v.set(now_ticks.unwrap_or(u64::MAX)));
}

/// # Safety
/// `ts` must be valid for a write of one `timespec` (the contract of clock_gettime(2)).
#[no_mangle]
pub unsafe extern "C" fn clock_gettime(clk: libc::clockid_t, ts: *mut libc::timespec) -> libc::c_int {
    let v = VNOW.try_with(|v| v.get()).unwrap_or(u64::MAX);
    if v == u64::MAX || ts.is_null() {
        return libc::syscall(libc::SYS_clock_gettime, clk as libc::c_long, ts) as libc::c_int;
    }
    (*ts).tv_sec = BASE_S + (v / 1000) as i64;
    (*ts).tv_nsec = ((v % 1000) * 1_000_000) as i64;
    0
}

#[cfg(test)]
mod tests {
    #[test]
    fn instant_follows_the_virtual_clock() {
        let real0 = std::time::Instant::now();
        super::set(Some(5));
        let a = std::time::Instant::now();
        super::set(Some(12));
        let b = std::time::Instant::now();
        assert_eq!(b.duration_since(a), std::time::Duration::from_millis(7));
        super::set(None);
        assert!(real0.elapsed() < std::time::Duration::from_secs(5));
    }
}
