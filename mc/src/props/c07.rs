//! C07: restart keeps identity and mailbox and yields a freshly started incarnation.

use crate::{
    check::{Case, Property, Tier, Trace, Violation},
    ops::{Op, H},
    progscene::{ClientSpec, HInit, ProgScene},
    props::c01::{msg_id, submitted_id},
    scenes::{Mailbox, SpawnCfg, Strat},
    trace::An,
    vexec::ExecCfg,
    world::{fold, Action, Cb, CtxOp, Ev, Res, RoleCfg, StartBeh, DIGEST0},
};

#[derive(Clone, Copy, Debug, PartialEq, Eq)]
pub enum R {
    Send,
    Call,
    /// through a Sender / a Caller the client has held since before any restart
    SendSnd,
    CallCal,
    /// through the weak sender / weak caller the client holds (its own, or - after `AdoptCtx` -
    /// the ones the actor's context minted before any restart)
    SendW,
    CallW,
    ForceW,
    AdoptCtx,
    /// await the address (the client learns how the actor ended)
    Await,
    Restart,
    CmdRestart,
    Sleep(u32),
    CmdTimer(Action),
}

pub struct X {
    strat: Strat,
    timers: bool,
    /// the case's virtual-time horizon (0: none, no timers)
    horizon: u64,
}

fn to_op(r: R, id: u32) -> Op {
    match r {
        R::Send => Op::Send(H::Addr(0), id),
        R::Call => Op::Call(H::Addr(0), id),
        R::SendSnd => Op::Send(H::Snd(0), id),
        R::CallCal => Op::Call(H::Cal(0), id),
        R::SendW => Op::Send(H::WSnd(0), id),
        R::CallW => Op::Call(H::WCal(0), id),
        R::ForceW => Op::ForceSend(H::WSnd(0), id),
        R::AdoptCtx => Op::AdoptCtx,
        R::Await => Op::Await(H::Addr(0)),
        R::Restart => Op::Restart(H::Addr(0)),
        R::CmdRestart => Op::Cmd(H::Addr(0), id, Action::Restart),
        R::Sleep(t) => Op::Sleep(t),
        R::CmdTimer(a) => Op::Cmd(H::Addr(0), id, a),
    }
}

fn oracle(s: &ProgScene<X>, t: &Trace) -> Vec<Violation> {
    let an = An::new(t.log);
    let mut out = vec![];
    let strat = s.extra.strat;
    let sk = format!("{strat:?}");
    let op_at = |c: u8, i: u16| s.clients.get(c as usize).and_then(|cs| cs.ops.get(i as usize));
    // accepted restart requests as intervals [begin, end] in log positions
    let mut restarts: Vec<(usize, usize)> = vec![];
    for o in &an.ops {
        if let (Some(Op::Restart(_)), true, Some(e)) = (op_at(o.c, o.i), o.ok(), o.end) {
            restarts.push((o.begin, e));
        }
    }
    for (idx, e) in t.log.iter().enumerate() {
        if let Ev::Ctx { op: CtxOp::Restart, ok: true, .. } = e.ev {
            restarts.push((idx, idx));
        }
    }
    let term = an.task_end(0);
    let beh = |n: u16| s.roles[0].started.get(n as usize).copied().unwrap_or(StartBeh::Ok);
    // start-ups that began and never came to their end
    let open_starts: Vec<u16> = an.enters.iter().filter(|e| e.a == 0 && e.cb == Cb::Started && !an.exits.iter().any(|x| x.a == 0 && x.cb == Cb::Started && x.inc == e.inc)).map(|e| e.inc).collect();
    let failed_start = open_starts.iter().any(|n| beh(*n) != StartBeh::Ok) || s.roles[0].started.iter().any(|b| *b != StartBeh::Ok) && term.is_some();
    // (a0) the hooks of a restart run to their end: a started() that neither fails nor panics is
    // not cut short, whatever it takes (the handler timeout is about handlers), and neither is the
    // stopped() before it
    if t.res.end == crate::vexec::EndReason::Quiescent || term.is_some() {
        for n in &open_starts {
            if beh(*n) == StartBeh::Ok {
                out.push(Violation {
                    clause: "restart-hooks-run-to-their-end",
                    key: format!("C07/started-cut-short/strategy={sk}"),
                    detail: format!("started() of incarnation {n} was entered and never returned although it neither fails nor panics; actor task end={term:?}"),
                });
            }
        }
        if !s.roles[0].stopped_panic {
            for e in an.enters.iter().filter(|e| e.a == 0 && e.cb == Cb::Stopped) {
                if !an.exits.iter().any(|x| x.a == 0 && x.cb == Cb::Stopped && x.inc == e.inc) {
                    out.push(Violation {
                        clause: "restart-hooks-run-to-their-end",
                        key: format!("C07/stopped-cut-short/strategy={sk}"),
                        detail: format!("stopped() of incarnation {} was entered and never returned; actor task end={term:?}", e.inc),
                    });
                }
            }
        }
    }
    for _ in an.exits.iter().filter(|e| e.a == 0 && e.cb == Cb::Started && e.inc > 0) {
        crate::check::oblige("restart-hooks-run-to-their-end");
    }

    // (b) incarnation bounds for every handled message
    for (c, cs) in s.clients.iter().enumerate() {
        for (i, op) in cs.ops.iter().enumerate() {
            let Some(id) = submitted_id(op) else { continue };
            let Some(o) = an.op(c as u8, i as u16) else { continue };
            let Some(en) = an.enter_of_msg(0, id).first().copied() else { continue };
            let inc = en.inc as usize;
            if strat == Strat::NonRestartable {
                if inc != 0 {
                    out.push(Violation {
                        clause: "non-restartable-ignores-restart",
                        key: "C07/non-restartable-restarted".into(),
                        detail: format!("message {id} was handled by incarnation {inc} of a non-restartable actor"),
                    });
                }
                continue;
            }
            crate::check::oblige("incarnation-bounds");
            let lower = restarts.iter().filter(|(_, e)| *e < o.begin).count();
            let upper = match o.end {
                Some(end) => restarts.iter().filter(|(b, _)| *b < end).count(),
                None => restarts.len(),
            };
            if inc < lower || inc > upper {
                out.push(Violation {
                    clause: "incarnation-bounds",
                    key: format!("C07/wrong-incarnation/strategy={sk}"),
                    detail: format!("message {id} was handled by incarnation {inc}; {lower} accepted restart requests had completed before its submission began and {upper} had begun before it ended"),
                });
            }
        }
    }
    // (c) FIFO across restarts for messages of one client
    for (c, cs) in s.clients.iter().enumerate() {
        let mut last_enter: Option<usize> = None;
        for (i, op) in cs.ops.iter().enumerate() {
            let Some(id) = submitted_id(op) else { continue };
            let Some(o) = an.op(c as u8, i as u16) else { continue };
            if !o.ok() {
                continue;
            }
            let en = an.enter_of_msg(0, id).first().map(|e| e.idx);
            match (last_enter, en) {
                (Some(p), Some(n)) if n < p => out.push(Violation {
                    clause: "order-across-restart",
                    key: format!("C07/reordered/strategy={sk}"),
                    detail: format!("message {id} of client {c} overtook an earlier message of the same client"),
                }),
                _ => {}
            }
            if en.is_some() {
                last_enter = en;
            }
        }
    }
    // (d) strategy semantics on the callback sequence, and state carried over / reset
    let cbs: Vec<_> = t
        .log
        .iter()
        .enumerate()
        .filter_map(|(idx, e)| match e.ev {
            Ev::Enter { a: 0, inst, inc, cb } => Some((idx, true, inst, inc, cb)),
            Ev::Exit { a: 0, inst, inc, cb } => Some((idx, false, inst, inc, cb)),
            _ => None,
        })
        .collect();
    let mut digest = DIGEST0;
    let mut digest_at: Vec<(u32, u64, u16)> = vec![];
    let mut cur_inst: Option<u16> = None;
    for w in 0..cbs.len() {
        let (_, is_enter, inst, inc, cb) = cbs[w];
        if is_enter && cb == Cb::Started {
            if inc > 0 {
                crate::check::oblige("restart-callbacks");
                // must directly follow Exit(Stopped) of the previous incarnation
                let prev = cbs.get(w.wrapping_sub(1));
                let ok_prev = matches!(prev, Some((_, false, _, pinc, Cb::Stopped)) if *pinc + 1 == inc);
                if !ok_prev {
                    out.push(Violation {
                        clause: "restart-callbacks",
                        key: format!("C07/started-without-stopped/strategy={sk}"),
                        detail: format!("incarnation {inc} started without the previous one having been stopped right before ({prev:?})"),
                    });
                }
                let prev_inst = cur_inst;
                match strat {
                    Strat::Default => {
                        if prev_inst != Some(inst) {
                            out.push(Violation {
                                clause: "default-keeps-value",
                                key: "C07/default-strategy-new-value".into(),
                                detail: format!("restart with the default strategy started instance {inst}, previous {prev_inst:?}"),
                            });
                        }
                    }
                    Strat::Recreate => {
                        if prev_inst == Some(inst) {
                            out.push(Violation {
                                clause: "recreate-fresh-value",
                                key: "C07/recreate-same-value".into(),
                                detail: format!("recreate-from-default restarted the same instance {inst}"),
                            });
                        }
                        digest = DIGEST0;
                    }
                    Strat::NonRestartable => out.push(Violation {
                        clause: "non-restartable-ignores-restart",
                        key: "C07/non-restartable-restarted".into(),
                        detail: "a non-restartable actor was started again".into(),
                    }),
                }
            }
            cur_inst = Some(inst);
        }
        if !is_enter {
            if let Cb::Msg(id) = cb {
                digest = fold(digest, id);
                digest_at.push((id, digest, inst));
            }
        }
    }
    for o in &an.ops {
        if let Some(Res::Reply(r)) = o.res {
            crate::check::oblige("state-carried-or-reset");
            let want = digest_at.iter().find(|(id, _, _)| *id == r.id);
            match want {
                Some((_, d, inst)) if *d == r.digest && *inst == r.inst => {}
                _ => out.push(Violation {
                    clause: "state-carried-or-reset",
                    key: format!("C07/state-after-restart/strategy={sk}"),
                    detail: format!("reply {r:?} does not match the expected state {want:?} (default: carried over, recreate: reset)"),
                }),
            }
        }
        // (a) handles stay valid: a call that was begun after everything restarted and is not
        // affected by a failure completes Ok
        if let (Some(Op::Call(..)), Some(res)) = (op_at(o.c, o.i), o.res) {
            if !res.is_ok() && !failed_start {
                out.push(Violation {
                    clause: "handles-stay-valid",
                    key: format!("C07/call-failed-across-restart/strategy={sk}"),
                    detail: format!("call by client {} op {} returned {res:?} although the actor never failed", o.c, o.i),
                });
            }
        }
        // ... and so does a send, through whatever kind of handle (nobody stops the actor in this
        // family, and the client keeps a strong address, so a weak handle upgrades)
        if let (Some(op @ (Op::Send(..) | Op::ForceSend(..))), Some(res)) = (op_at(o.c, o.i), o.res) {
            crate::check::oblige("handles-stay-valid");
            if !res.is_ok() && !failed_start {
                out.push(Violation {
                    clause: "handles-stay-valid",
                    key: format!("C07/send-failed-across-restart/strategy={sk}"),
                    detail: format!("{op:?} by client {} returned {res:?} although the actor never failed and nobody stopped it", o.c),
                });
            }
        }
    }
    // (e0) ... and is reported as a failure to whoever awaits the address
    if failed_start {
        for o in &an.ops {
            if let (Some(Op::Await(_)), Some(_)) = (op_at(o.c, o.i), o.end) {
                crate::check::oblige("start-failure-on-restart-terminates");
                if o.ok() {
                    out.push(Violation {
                        clause: "start-failure-on-restart-terminates",
                        key: format!("C07/await-ok-after-failed-restart/strategy={sk}"),
                        detail: "the start of a restart failed, yet awaiting the address reported a clean stop".into(),
                    });
                }
            }
        }
    }
    // (e) a start failure during restart terminates the actor as failed
    if let Some(n) = s.roles[0].started.iter().position(|b| *b == StartBeh::Err) {
        let reached = an.enters.iter().filter(|e| e.a == 0 && e.cb == Cb::Started).count() > n;
        if reached {
            crate::check::oblige("start-failure-on-restart-terminates");
            let later_handled = an.enters.iter().any(|e| e.a == 0 && e.inc as usize > n);
            let later_msg = an.enters.iter().any(|e| e.a == 0 && e.inc as usize == n && matches!(e.cb, Cb::Msg(_)));
            if term.is_none() || later_handled || later_msg {
                out.push(Violation {
                    clause: "start-failure-on-restart-terminates",
                    key: format!("C07/start-failure-survived/strategy={sk}"),
                    detail: format!("start #{n} failed but task end={term:?}, handled afterwards={}", later_handled || later_msg),
                });
            }
        }
    }
    // (f) timers of a previous incarnation no longer fire
    if s.extra.timers && strat != Strat::NonRestartable {
        let start_time = |inc: u16| an.enters.iter().find(|e| e.a == 0 && e.cb == Cb::Started && e.inc == inc).map(|e| e.time);
        for e in &an.enters {
            let (reg_inc, what) = match e.cb {
                Cb::Tick { reg_inc, timer } => (reg_inc, format!("tick of timer {timer}")),
                Cb::Exec { reg_inc, timer } => (reg_inc, format!("delayed_exec {timer}")),
                _ => continue,
            };
            if let Some(s_next) = start_time(reg_inc + 1) {
                crate::check::oblige("old-timers-stop-at-restart");
                if e.time > s_next {
                    out.push(Violation {
                        clause: "old-timers-stop-at-restart",
                        key: format!("C07/stale-timer-fired/strategy={sk}"),
                        detail: format!("{what} registered by incarnation {reg_inc} was handled at t={} although incarnation {} started at t={s_next}", e.time, reg_inc + 1),
                    });
                }
            }
        }
    }
    // (g) ... and the timers of the *current* incarnation keep firing: a restart request that is
    // ignored (non-restartable), still queued, or already processed never silences the timers
    // registered by the incarnation that is running. Expected firing times of the timers
    // registered in started(): registration time + k periods (once: + delay), as long as they
    // lie strictly before the end of that incarnation (its stopped() callback, or the horizon).
    if !s.roles[0].started_actions.is_empty() && s.extra.horizon > 0 {
        for st in an.exits.iter().filter(|e| e.a == 0 && e.cb == Cb::Started) {
            let r = st.inc;
            let end = an.enters.iter().find(|e| e.a == 0 && e.cb == Cb::Stopped && e.inc == r).map(|e| e.time).unwrap_or(s.extra.horizon).min(term.map(|(i, _)| t.log[i].time).unwrap_or(u64::MAX));
            for a in &s.roles[0].started_actions {
                let (timer, times, exec): (u8, Vec<u64>, bool) = match *a {
                    Action::Interval { timer, period } | Action::IntervalWith { timer, period } => (timer, (1..).map(|k| st.time + k * period as u64).take_while(|x| *x < end).collect(), false),
                    Action::DelayedSend { timer, delay } => (timer, Some(st.time + delay as u64).into_iter().filter(|x| *x < end).collect(), false),
                    Action::DelayedExec { timer, delay } => (timer, Some(st.time + delay as u64).into_iter().filter(|x| *x < end).collect(), true),
                    _ => continue,
                };
                for at in times {
                    crate::check::oblige("current-timers-keep-firing");
                    let fired = an.enters.iter().any(|e| {
                        e.a == 0 && e.time == at && if exec { e.cb == Cb::Exec { timer, reg_inc: r } } else { e.cb == Cb::Tick { timer, reg_inc: r } }
                    });
                    if !fired {
                        out.push(Violation {
                            clause: "current-timers-keep-firing",
                            key: format!("C07/current-timer-silenced/strategy={sk}"),
                            detail: format!("timer {timer} registered by incarnation {r} at t={} did not fire at t={at} although that incarnation ran until t={end}", st.time),
                        });
                    }
                }
            }
        }
    }
    // (g2) the same for timers a *handler* registers (a command message): whatever the history of
    // restarts before it, a timer registered by the running incarnation fires as long as that
    // incarnation runs
    if s.extra.horizon > 0 {
        for cs in &s.clients {
            for op in &cs.ops {
                let Op::Cmd(_, cmd_id, a) = op else { continue };
                let Some(reg) = an.exit_of_msg(0, *cmd_id) else { continue };
                let r = reg.inc;
                let end = an.enters.iter().find(|e| e.a == 0 && e.cb == Cb::Stopped && e.inc == r).map(|e| e.time).unwrap_or(s.extra.horizon).min(term.map(|(i, _)| t.log[i].time).unwrap_or(u64::MAX));
                let (timer, times, exec): (u8, Vec<u64>, bool) = match *a {
                    Action::Interval { timer, period } | Action::IntervalWith { timer, period } => (timer, (1..).map(|k| reg.time + k * period as u64).take_while(|x| *x < end).collect(), false),
                    Action::DelayedSend { timer, delay } => (timer, Some(reg.time + delay as u64).into_iter().filter(|x| *x < end).collect(), false),
                    Action::DelayedExec { timer, delay } => (timer, Some(reg.time + delay as u64).into_iter().filter(|x| *x < end).collect(), true),
                    _ => continue,
                };
                for at in times {
                    crate::check::oblige("current-timers-keep-firing");
                    let fired = an.enters.iter().any(|e| e.a == 0 && e.time == at && if exec { e.cb == Cb::Exec { timer, reg_inc: r } } else { e.cb == Cb::Tick { timer, reg_inc: r } });
                    if !fired {
                        out.push(Violation {
                            clause: "current-timers-keep-firing",
                            key: format!("C07/handler-registered-timer-silent/strategy={sk}"),
                            detail: format!("timer {timer} registered by a handler of incarnation {r} at t={} did not fire at t={at} although that incarnation ran until t={end}", reg.time),
                        });
                    }
                }
            }
        }
    }
    // (h) identity as others see it: an actor that subscribes itself to a broker topic in
    // started() does so again after every restart - being the same actor, that is still one
    // subscription, and a publication reaches it exactly once
    if s.roles[0].started_actions.iter().any(|a| matches!(a, Action::Subscribe { topic: 1 })) && t.res.end == crate::vexec::EndReason::Quiescent {
        for cs in &s.clients {
            for op in &cs.ops {
                if let Op::Cmd(_, cmd_id, Action::Publish { topic: 1, id }) = op {
                    if an.exit_of_msg(0, *cmd_id).is_none() {
                        continue;
                    }
                    crate::check::oblige("identity-kept-across-restart");
                    let got = an.enters.iter().filter(|e| e.a == 0 && e.cb == (Cb::Topic { topic: 1, id: *id })).count();
                    if got != 1 {
                        out.push(Violation {
                            clause: "identity-kept-across-restart",
                            key: format!("C07/subscription-multiplied-by-restart/strategy={sk}"),
                            detail: format!("the actor subscribes itself in started(); after its restarts publication {id} was delivered to it {got} time(s), expected 1"),
                        });
                    }
                }
            }
        }
    }
    out
}

// ------------------------------------------------------------------ differential clause
//
// "The new incarnation behaves like a freshly started actor on that mailbox", without a
// hand-written expectation: actor X (role 0) handles a little history and is restarted at t=0;
// actor Y (role 1) is spawned fresh with the same configuration. The same suffix program is then
// run against both. Over all schedules, the set of what the suffix observes on X (callback
// events after the restart completed, normalised; results of the suffix operations) must equal
// the set observed on Y.

/// virtual time at which the fresh actor of the differential scene is spawned
const Y_AT: u64 = 10;

struct Diff {
    strat: Strat,
    mailbox: Mailbox,
    timers: Vec<Action>,
    history: Vec<R>,
    suffix: Vec<R>,
    via_ctx: bool,
    seen_x: std::cell::RefCell<std::collections::BTreeMap<u64, String>>,
    seen_y: std::cell::RefCell<std::collections::BTreeMap<u64, String>>,
}

impl Diff {
    /// what the suffix sees of one actor in one execution
    fn project(&self, t: &Trace, role: u8, client: u8, first_suffix_op: u16, from_idx: usize) -> String {
        let t0 = if role == 1 { Y_AT } else { 0 };
        let mut parts: Vec<String> = vec![];
        for (idx, e) in t.log.iter().enumerate() {
            if idx < from_idx {
                continue;
            }
            match e.ev {
                Ev::Enter { a, cb, .. } | Ev::Exit { a, cb, .. } if a == role => {
                    let cb = match cb {
                        Cb::Tick { timer, .. } => Cb::Tick { timer, reg_inc: 0 },
                        Cb::Exec { timer, .. } => Cb::Exec { timer, reg_inc: 0 },
                        c => c,
                    };
                    let kind = if matches!(e.ev, Ev::Enter { .. }) { "in" } else { "out" };
                    parts.push(format!("{kind}:{cb:?}@{}", e.time.saturating_sub(t0)));
                }
                Ev::End { c, i, r } if c == client && i >= first_suffix_op => {
                    let r = match r {
                        Res::Reply(rep) => format!("Reply(id={},digest={:x})", rep.id, rep.digest),
                        other => format!("{other:?}"),
                    };
                    parts.push(format!("op{}={r}", i - first_suffix_op));
                }
                _ => {}
            }
        }
        parts.join(";")
    }
}

impl crate::check::Scene for Diff {
    fn roles(&self) -> Vec<RoleCfg> {
        // message 90 asks the actor to restart itself (Context::restart) from its handler
        let r = RoleCfg { started_actions: self.timers.clone(), msg_actions: vec![(90, Action::Restart)], ..RoleCfg::default() };
        vec![r.clone(), r]
    }
    fn setup(&self, exec: &crate::vexec::Exec) {
        use crate::ops::{run_client, Handles};
        crate::world::W.with(|w| w.borrow_mut().default_role[0] = 0);
        let cfg = SpawnCfg { mailbox: self.mailbox, strat: self.strat, timeout: None };
        let x = crate::scenes::spawn_probe(0, cfg).detach();
        let mut xo: Vec<Op> = self.history.iter().enumerate().map(|(i, r)| to_op(*r, 10 + i as u32)).collect();
        // (a call, so that it has returned - and the restart marker is queued - before the barrier)
        xo.push(if self.via_ctx { Op::Call(H::Addr(0), 90) } else { Op::Restart(H::Addr(0)) });
        // a call acts as a barrier: it is answered by the new incarnation, after the restart
        xo.push(Op::Call(H::Addr(0), 91));
        xo.extend(self.suffix.iter().enumerate().map(|(i, r)| to_op(*r, 50 + i as u32)));
        let mut yo: Vec<Op> = vec![Op::Call(H::Addr(0), 91)];
        yo.extend(self.suffix.iter().enumerate().map(|(i, r)| to_op(*r, 50 + i as u32)));
        // both keep their handle until the timers had time to fire
        xo.push(Op::Sleep(4));
        yo.push(Op::Sleep(4));
        exec.spawn_client(0, run_client(0, Handles::with_addr(x), xo));
        // the fresh actor is only spawned once the restarted one is done (t = Y_AT), so that the
        // two halves do not multiply each other's schedules; times are compared relative to
        // the start of the incarnation
        exec.spawn_client(1, async move {
            crate::world::sleep(Y_AT as u32).await;
            let y = crate::scenes::spawn_probe(1, cfg).detach();
            run_client(1, Handles::with_addr(y), yo).await;
        });
    }
    fn check(&self, _t: &Trace) -> Vec<Violation> {
        vec![]
    }
    fn observe(&self, t: &Trace) {
        // X: from the completed start of incarnation 1; Y: from its only start
        let from_x = t.log.iter().position(|e| matches!(e.ev, Ev::Exit { a: 0, inc: 1, cb: Cb::Started, .. }));
        let from_y = t.log.iter().position(|e| matches!(e.ev, Ev::Exit { a: 1, cb: Cb::Started, .. }));
        let (Some(fx), Some(fy)) = (from_x, from_y) else { return };
        crate::check::oblige("behaves-like-fresh");
        let barrier_x = self.history.len() as u16 + 1;
        let px = self.project(t, 0, 0, barrier_x, fx + 1);
        let py = self.project(t, 1, 1, 0, fy + 1);
        self.seen_x.borrow_mut().entry(crate::world::hash_of(&px)).or_insert(px);
        self.seen_y.borrow_mut().entry(crate::world::hash_of(&py)).or_insert(py);
    }
    fn finish(&self, complete: bool) -> Vec<Violation> {
        if !complete {
            return vec![];
        }
        let (x, y) = (self.seen_x.borrow(), self.seen_y.borrow());
        let only_x: Vec<&String> = x.iter().filter(|(h, _)| !y.contains_key(h)).map(|(_, s)| s).collect();
        let only_y: Vec<&String> = y.iter().filter(|(h, _)| !x.contains_key(h)).map(|(_, s)| s).collect();
        if only_x.is_empty() && only_y.is_empty() {
            return vec![];
        }
        vec![Violation {
            clause: "behaves-like-fresh",
            key: format!("C07/restarted-differs-from-fresh/strategy={:?}", self.strat),
            detail: format!(
                "{} behaviour(s) only after a restart, {} only on a fresh actor; e.g. restarted: {:?} / fresh: {:?}",
                only_x.len(),
                only_y.len(),
                only_x.first(),
                only_y.first()
            ),
        }]
    }
}

fn diff_cases(tier: Tier) -> Vec<Case> {
    let mut v = vec![];
    let timer_sets: Vec<Vec<Action>> = vec![
        vec![],
        vec![Action::Interval { timer: 1, period: 2 }],
        vec![Action::IntervalWith { timer: 1, period: 3 }],
        vec![Action::DelayedSend { timer: 1, delay: 2 }, Action::DelayedExec { timer: 2, delay: 3 }],
    ];
    let histories: Vec<Vec<R>> = if tier == Tier::Quick { vec![vec![], vec![R::Send, R::Call]] } else { vec![vec![], vec![R::Call], vec![R::Send, R::Call]] };
    let timer_sets: Vec<Vec<Action>> = if tier == Tier::Quick { timer_sets[..2].to_vec() } else { timer_sets };
    let suffixes: Vec<Vec<R>> = if tier == Tier::Quick {
        vec![vec![R::Send, R::Call]]
    } else {
        vec![vec![R::Call], vec![R::Send, R::Call], vec![R::Call, R::Send, R::Call], vec![R::Call, R::CmdTimer(Action::Interval { timer: 5, period: 2 }), R::Call]]
    };
    // with the default strategy the state is carried over on purpose, so only recreate is
    // comparable to a fresh actor - unless there is no history at all
    for (strat, hs) in [(Strat::Recreate, &histories[..]), (Strat::Default, &histories[..1])] {
        for &mb in &[Mailbox::U, Mailbox::B(1)] {
            for ts in &timer_sets {
                for h in hs {
                    for sfx in &suffixes {
                        for via_ctx in [false, true] {
                            // (the message that asks for a Context::restart is itself history, which the
                            // default strategy carries over)
                            if via_ctx && strat == Strat::Default {
                                continue;
                            }
                            v.push(Case {
                                desc: format!("restart-vs-fresh strategy={strat:?} mailbox={} timers={ts:?} history={h:?} suffix={sfx:?} via_ctx={via_ctx}", mb.name()),
                                exec: ExecCfg { horizon: 16, ..ExecCfg::default() },
                                bound: None,
                                scene: Box::new(Diff {
                                    strat,
                                    mailbox: mb,
                                    timers: ts.clone(),
                                    history: h.clone(),
                                    suffix: sfx.clone(),
                                    via_ctx,
                                    seen_x: Default::default(),
                                    seen_y: Default::default(),
                                }),
                            });
                        }
                    }
                }
            }
        }
    }
    v
}

fn make_case(progs: &[Vec<R>], strat: Strat, mailbox: Mailbox, start_err_at: Option<usize>, started_timers: &[Action], horizon: u64, bound: Option<u32>) -> Case {
    let mut clients = vec![];
    for (c, p) in progs.iter().enumerate() {
        let ops: Vec<Op> = p.iter().enumerate().map(|(i, r)| to_op(*r, msg_id(c, i))).collect();
        clients.push(ClientSpec { init: vec![HInit::Addr, HInit::Snd, HInit::Cal, HInit::WSnd, HInit::WCal], ops });
    }
    let mut role = RoleCfg::default();
    if let Some(n) = start_err_at {
        role.started = vec![StartBeh::Ok; n];
        role.started.push(StartBeh::Err);
    }
    role.started_actions = started_timers.to_vec();
    if progs.iter().flatten().any(|r| *r == R::AdoptCtx) {
        // started() hands out the weak sender and weak caller its context makes
        role.started_actions.push(Action::ShareCtxHandles);
    }
    // a handler timeout is configured and the hooks of a restart take longer than it: the limit is
    // about handlers, a restart still goes through
    let slow_hooks = SLOW_HOOKS.with(|s| s.get());
    if let Some((_, mode)) = slow_hooks {
        (role.started_sleep, role.stopped_sleep) = match mode {
            0 => (2, 2),
            1 => (4, 0),
            _ => (0, 4),
        };
    }
    // timers the old incarnation registers in its stopped() hook belong to it as well
    role.stopped_actions = STOPPED_TIMERS.with(|t| t.borrow().clone());
    let timers = !started_timers.is_empty() || !role.stopped_actions.is_empty() || progs.iter().flatten().any(|r| matches!(r, R::CmdTimer(_)));
    let desc = format!(
        "restart{} strategy={:?} mailbox={} start_err_at={:?} started_timers={:?} progs={}",
        if let Some((f, m)) = slow_hooks { format!(" [timeout 3 fail={f}, started()/stopped() take {}]", ["2/2", "4/0", "0/4"][m as usize]) } else if role.stopped_actions.is_empty() { String::new() } else { format!(" [registered in stopped(): {:?}]", role.stopped_actions) },
        strat,
        mailbox.name(),
        start_err_at,
        started_timers,
        progs.iter().map(|p| p.iter().map(|l| format!("{l:?}")).collect::<Vec<_>>().join(",")).collect::<Vec<_>>().join(" | ")
    );
    Case {
        desc,
        exec: ExecCfg { horizon, ..ExecCfg::default() },
        bound,
        scene: Box::new(ProgScene { variant: crate::progscene::current_variant(),
            attach: crate::progscene::Attach::None, spawn: SpawnCfg { mailbox, strat, timeout: slow_hooks.map(|(f, _)| (3, f)) },
            roles: vec![role],
            clients,
            extra: X { strat, timers, horizon },
            oracle,
        }),
    }
}

thread_local! {
    /// Some(fail_on_timeout): a handler timeout of 3 ticks and lifecycle hooks of 2 ticks each
    static SLOW_HOOKS: std::cell::Cell<Option<(bool, u8)>> = const { std::cell::Cell::new(None) };
}

thread_local! {
    static STOPPED_TIMERS: std::cell::RefCell<Vec<Action>> = const { std::cell::RefCell::new(Vec::new()) };
}

fn with_stopped_timers<T>(ts: Vec<Action>, f: impl FnOnce() -> T) -> T {
    STOPPED_TIMERS.with(|t| *t.borrow_mut() = ts);
    let r = f();
    STOPPED_TIMERS.with(|t| t.borrow_mut().clear());
    r
}

fn seqs(alpha: &[R], n: usize) -> Vec<Vec<R>> {
    let mut out: Vec<Vec<R>> = vec![vec![]];
    for _ in 0..n {
        out = out.into_iter().flat_map(|p| alpha.iter().map(move |l| { let mut q = p.clone(); q.push(*l); q })).collect();
    }
    out
}

fn cases(tier: Tier) -> Vec<Case> {
    let mut v = vec![];
    let alpha = [R::Send, R::Call, R::Restart, R::CmdRestart];
    let is_restart = |r: &R| matches!(r, R::Restart | R::CmdRestart);
    let strats = [Strat::Default, Strat::Recreate, Strat::NonRestartable];
    let mbs: &[Mailbox] = if tier == Tier::Quick { &[Mailbox::U, Mailbox::B(1)] } else { &[Mailbox::U, Mailbox::B(0), Mailbox::B(1)] };
    for &strat in &strats {
        for &mb in mbs {
            for err in [None, Some(1)] {
                if err.is_some() && strat == Strat::NonRestartable {
                    continue;
                }
                // one client, up to 3 ops with at least one restart
                for n in 1..=3 {
                    for p in seqs(&alpha, n) {
                        if !p.iter().any(is_restart) {
                            continue;
                        }
                        v.push(make_case(&[p], strat, mb, err, &[], 0, None));
                    }
                }
                // somebody awaits the address while the restarts happen
                if err.is_some() {
                    for via in [R::Restart, R::CmdRestart] {
                        v.push(make_case(&[vec![R::Call, via, R::Call], vec![R::Await]], strat, mb, err, &[], 0, None));
                    }
                }
                // two clients: [2] + [1]
                for p in seqs(&alpha, 2) {
                    for q in seqs(&[R::Send, R::Call, R::Restart], 1) {
                        if !p.iter().chain(q.iter()).any(is_restart) {
                            continue;
                        }
                        v.push(make_case(&[p.clone(), q], strat, mb, err, &[], 0, None));
                    }
                }
            }
        }
    }
    // timers: registered in started and/or in a handler, restarts at various virtual times
    let timer_sets: Vec<Vec<Action>> = vec![
        vec![Action::Interval { timer: 1, period: 2 }],
        vec![Action::IntervalWith { timer: 1, period: 2 }],
        vec![Action::DelayedSend { timer: 1, delay: 3 }],
        vec![Action::DelayedExec { timer: 1, delay: 3 }],
        vec![Action::Interval { timer: 1, period: 2 }, Action::DelayedSend { timer: 2, delay: 5 }],
    ];
    for &strat in &[Strat::Default, Strat::Recreate, Strat::NonRestartable] {
        for &mb in &[Mailbox::U, Mailbox::B(1)] {
            for ts in &timer_sets {
                for s1 in [0u32, 1, 2, 3] {
                    for via in [R::Restart, R::CmdRestart] {
                        v.push(make_case(&[vec![R::Sleep(s1), via, R::Call]], strat, mb, None, ts, 10, None));
                        for s2 in [1u32, 2] {
                            v.push(make_case(&[vec![R::Sleep(s1), via, R::Sleep(s2), R::Restart]], strat, mb, None, ts, 10, None));
                        }
                    }
                }
                // two clients restarting concurrently around t=2
                v.push(make_case(&[vec![R::Sleep(2), R::Restart], vec![R::Sleep(2), R::Restart, R::Call]], strat, mb, None, ts, 8, if tier == Tier::Quick { Some(3) } else { Some(6) }));
            }
            // timers registered in a handler, then a restart
            for a in [
                Action::Interval { timer: 3, period: 2 },
                Action::IntervalWith { timer: 3, period: 1 },
                Action::DelayedSend { timer: 3, delay: 4 },
                Action::DelayedExec { timer: 3, delay: 4 },
            ] {
                for s1 in [0u32, 1, 3] {
                    v.push(make_case(&[vec![R::CmdTimer(a), R::Sleep(s1), R::Restart, R::Call]], strat, mb, None, &[], 10, None));
                }
                // ... and the other way round: restarted first (nothing registered yet), then a
                // handler of the new incarnation registers its timer
                v.push(make_case(&[vec![R::Restart, R::CmdTimer(a), R::Sleep(5), R::Call]], strat, mb, None, &[], 10, None));
                v.push(make_case(&[vec![R::Call, R::CmdRestart, R::CmdTimer(a), R::Sleep(5), R::Call]], strat, mb, None, &[], 10, None));
            }
        }
    }
    // an incarnation with *many* timers (six intervals and one-shots registered in started(), two
    // more by a handler): a restart takes all of them with it
    for &strat in &[Strat::Default, Strat::Recreate] {
        for &mb in mbs {
            let many = [
                Action::Interval { timer: 1, period: 2 },
                Action::DelayedSend { timer: 2, delay: 7 },
                Action::IntervalWith { timer: 3, period: 3 },
                Action::DelayedExec { timer: 4, delay: 8 },
                Action::Interval { timer: 5, period: 4 },
                Action::DelayedSend { timer: 6, delay: 1 },
            ];
            v.push(make_case(&[vec![R::Sleep(2), R::Restart, R::Sleep(6), R::Call]], strat, mb, None, &many, 12, Some(2)));
            v.push(make_case(&[vec![R::CmdTimer(Action::Interval { timer: 7, period: 2 }), R::CmdTimer(Action::DelayedSend { timer: 8, delay: 6 }), R::Sleep(2), R::CmdRestart, R::Sleep(6), R::Call]], strat, mb, None, &many, 12, Some(2)));
        }
    }
    // "its handles stay valid": also the Sender and the Caller a client made before the restart
    for &strat in &[Strat::Default, Strat::Recreate] {
        for &mb in mbs {
            for via in [R::Restart, R::CmdRestart] {
                v.push(make_case(&[vec![R::SendSnd, via, R::SendSnd, R::CallCal]], strat, mb, None, &[], 0, None));
                v.push(make_case(&[vec![R::CallCal, via, R::CallCal, via, R::SendSnd, R::Call]], strat, mb, None, &[], 0, None));
            }
        }
    }
    // ... and the weak sender and weak caller: the client's own, and the ones the actor's context
    // minted before the restart (adopted by the client from the first incarnation's started())
    for &strat in &[Strat::Default, Strat::Recreate] {
        for &mb in mbs {
            for via in [R::Restart, R::CmdRestart] {
                for adopt in [false, true] {
                    let pre: Vec<R> = if adopt { vec![R::AdoptCtx] } else { vec![] };
                    let mk = |tail: &[R]| pre.iter().copied().chain(tail.iter().copied()).collect::<Vec<R>>();
                    v.push(make_case(&[mk(&[R::SendW, via, R::SendW, R::CallW])], strat, mb, None, &[], 0, None));
                    v.push(make_case(&[mk(&[R::CallW, via, R::ForceW, via, R::SendW, R::Call])], strat, mb, None, &[], 0, None));
                    v.push(make_case(&[mk(&[via, R::CallW, R::SendW]), vec![R::SendW, R::Call]], strat, mb, None, &[], 0, Some(3)));
                }
            }
        }
    }
    // a delayed_exec whose future is under way when the restart comes (delays 0, 1 and 2, the work
    // 3 ticks): it is the old incarnation's like any other timer, whether it is still waiting for
    // its delay or already past it, and does not reach its effect in the new one
    for &strat in &[Strat::Default, Strat::Recreate] {
        for &mb in mbs {
            for via in [R::Restart, R::CmdRestart] {
                for delay in [0u32, 1, 2] {
                    let le = Action::LongExec { timer: 9, delay, work: 3 };
                    v.push(make_case(&[vec![R::Sleep(1), via, R::Sleep(6), R::Call]], strat, mb, None, &[le], 12, Some(3)));
                    v.push(make_case(&[vec![R::CmdTimer(le), R::Sleep(2), via, R::Sleep(6), R::Call]], strat, mb, None, &[], 12, Some(3)));
                }
            }
        }
    }
    // restarts of an actor with a handler timeout whose hooks together outlast it
    for (fail, mode) in [(false, 0), (true, 0), (false, 1), (true, 2)] {
        SLOW_HOOKS.with(|s| s.set(Some((fail, mode))));
        for &strat in &[Strat::Default, Strat::Recreate] {
            for &mb in &[Mailbox::U, Mailbox::B(1)] {
                for p in [vec![R::Call, R::Restart, R::Call], vec![R::Send, R::CmdRestart, R::Call, R::Restart, R::Call]] {
                    let mut c = make_case(&[p], strat, mb, None, &[], 30, None);
                    // (handlers are instant: the timeout's select! never has both arms ready)
                    c.exec.select_choice = false;
                    v.push(c);
                }
            }
        }
        SLOW_HOOKS.with(|s| s.set(None));
    }
    // the actor subscribes itself to a broker topic in started(); restarted once or twice, then a
    // publication (which it makes itself, on command)
    for &strat in &[Strat::Default, Strat::Recreate] {
        for &mb in &[Mailbox::U, Mailbox::B(1)] {
            let publish = R::CmdTimer(Action::Publish { topic: 1, id: 77 });
            // (the client keeps its handle for two more ticks: the broker delivers to a live actor)
            for p in [vec![R::Restart, R::Call, publish, R::Sleep(2)], vec![R::Restart, R::Call, R::CmdRestart, R::Call, publish, R::Sleep(2)], vec![R::Restart, R::Sleep(1), R::Restart, R::Call, publish, R::Sleep(2)]] {
                v.push(make_case(&[p], strat, mb, None, &[Action::Subscribe { topic: 1 }], 20, None));
            }
        }
    }
    // timers registered in the stopped() hook of the incarnation that is going away
    for ts in [vec![Action::DelayedSend { timer: 7, delay: 2 }], vec![Action::Interval { timer: 7, period: 2 }], vec![Action::DelayedExec { timer: 7, delay: 1 }, Action::IntervalWith { timer: 8, period: 3 }]] {
        for &strat in &[Strat::Default, Strat::Recreate] {
            for &mb in &[Mailbox::U, Mailbox::B(1)] {
                for via in [R::Restart, R::CmdRestart] {
                    v.extend(with_stopped_timers(ts.clone(), || {
                        vec![
                            make_case(&[vec![via, R::Sleep(4), R::Call]], strat, mb, None, &[], 10, None),
                            make_case(&[vec![R::Sleep(1), via, R::Sleep(1), R::Restart, R::Sleep(4), R::Call]], strat, mb, None, &[Action::Interval { timer: 1, period: 2 }], 12, None),
                        ]
                    }));
                }
            }
        }
    }
    v.extend(diff_cases(tier));
    if tier == Tier::Thorough {
        for &strat in &strats {
            for &mb in mbs {
                for p in seqs(&alpha, 3) {
                    for q in seqs(&alpha, 2) {
                        if p.iter().chain(q.iter()).filter(|r| is_restart(r)).count() == 0 {
                            continue;
                        }
                        v.push(make_case(&[p.clone(), q], strat, mb, None, &[], 0, Some(5)));
                    }
                }
            }
        }
    }
    v
}

pub fn property() -> Property {
    Property {
        id: "C07",
        cases,
        clauses: &["behaves-like-fresh", "identity-kept-across-restart", "current-timers-keep-firing", "incarnation-bounds", "restart-callbacks", "start-failure-on-restart-terminates", "state-carried-or-reset"],
        full_rerun_check: true,
        assumptions: &[
            "handlers take no virtual time in the timer scenes, so a tick handled later than the start of the next incarnation must have fired after that start",
            "a restart request counts from the begin to the end of Addr::restart, or the instant Context::restart returned Ok",
        ],
    }
}
