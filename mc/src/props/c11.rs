//! C11: handler timeouts abandon exactly the invocations that exceed the limit.

use crate::{
    check::{Case, Property, Tier, Trace, Violation},
    ops::{Op, H},
    progscene::{Attach, ClientSpec, HInit, ProgScene},
    scenes::{Mailbox, SpawnCfg, Strat},
    trace::An,
    vexec::ExecCfg,
    world::{fold, Cb, Res, RoleCfg, Work, DIGEST0},
};

pub struct X {
    strat: Strat,
    timeout: Option<u32>,
    fail: bool,
    /// (message id, duration)
    durations: Vec<(u32, u32)>,
    /// the actor runs an interval (period 2) it registered in started()
    ticking: bool,
}

fn oracle(s: &ProgScene<X>, t: &Trace) -> Vec<Violation> {
    let an = An::new(t.log);
    let mut out = vec![];
    let x = &s.extra;
    let cfg = match (x.timeout, x.fail) {
        (None, _) => "no-timeout".to_string(),
        (Some(_), false) => "continue".to_string(),
        (Some(_), true) => "fail".to_string(),
    };
    let term = an.task_end(0);
    let term_time = term.map(|(i, _)| t.log[i].time);
    let mut first_exceeded: Option<u32> = None;
    let mut digest = DIGEST0;
    let mut digest_at: Vec<(u32, u64)> = vec![];
    // messages in handling order
    let handled: Vec<_> = an.enters.iter().filter(|e| e.a == 0 && matches!(e.cb, Cb::Msg(_))).collect();
    for (k, en) in handled.iter().enumerate() {
        let Cb::Msg(id) = en.cb else { continue };
        let d = x.durations.iter().find(|(m, _)| *m == id).map(|(_, d)| *d).unwrap_or(0) as u64;
        let after = an.afters.iter().any(|a| a.cb == en.cb);
        let exit = an.exit_of_msg(0, id);
        if exit.is_some() {
            digest = fold(digest, id);
            digest_at.push((id, digest));
        }
        let call = an.ops.iter().find(|o| matches!(s.clients.get(o.c as usize).and_then(|c| c.ops.get(o.i as usize)), Some(Op::Call(_, m)) if *m == id));
        let rel = match x.timeout {
            None => std::cmp::Ordering::Less,
            Some(tm) => d.cmp(&(tm as u64)),
        };
        match rel {
            std::cmp::Ordering::Less => {
                crate::check::oblige(if x.timeout.is_some() { "below-limit-completes" } else { "no-timeout-completes" });
                // must complete - unless the actor had failed before (fail config) or the run was cut
                let failed_before = first_exceeded.is_some() && x.fail;
                if !failed_before && (!after || exit.is_none()) && t.res.end == crate::vexec::EndReason::Quiescent {
                    out.push(Violation {
                        clause: "below-limit-completes",
                        key: format!("C11/abandoned-below-limit/{cfg}"),
                        detail: format!("message {id} needs {d} < timeout {:?} but did not complete", x.timeout),
                    });
                }
                if let Some(c) = call {
                    if !failed_before && c.end.is_some() && !c.ok() {
                        out.push(Violation {
                            clause: "below-limit-completes",
                            key: format!("C11/call-error-below-limit/{cfg}"),
                            detail: format!("call {id} (needs {d}, timeout {:?}) returned {:?}", x.timeout, c.res),
                        });
                    }
                }
            }
            std::cmp::Ordering::Greater => {
                let tm = x.timeout.unwrap_or(0) as u64;
                crate::check::oblige("above-limit-abandoned");
                if first_exceeded.is_none() {
                    first_exceeded = Some(id);
                }
                if after || exit.is_some() {
                    out.push(Violation {
                        clause: "above-limit-abandoned",
                        key: format!("C11/effects-after-timeout/{cfg}"),
                        detail: format!("message {id} needs {d} > timeout {tm} but produced effects after the limit (after-mark={after}, completed={})", exit.is_some()),
                    });
                }
                if let Some(c) = call {
                    if c.ok() {
                        out.push(Violation {
                            clause: "above-limit-abandoned",
                            key: format!("C11/call-ok-above-limit/{cfg}"),
                            detail: format!("call {id} (needs {d}, timeout {tm}) returned Ok"),
                        });
                    }
                    if c.end.is_none() && term.is_some() {
                        out.push(Violation {
                            clause: "caller-gets-error",
                            key: format!("C11/caller-hangs/{cfg}"),
                            detail: format!("call {id} never resolved"),
                        });
                    }
                }
                // abandoned exactly at start + t
                let abandoned_at = en.time + tm;
                if x.fail {
                    if term_time != Some(abandoned_at) {
                        out.push(Violation {
                            clause: "abandoned-at-t",
                            key: format!("C11/failure-time/{cfg}"),
                            detail: format!("message {id} entered at t={} with timeout {tm}: the actor ended at {term_time:?}, expected t={abandoned_at}", en.time),
                        });
                    }
                } else if let Some(next) = handled.get(k + 1) {
                    // only a message that was already waiting is taken up at that very instant
                    let next_id = if let Cb::Msg(m) = next.cb { m } else { 0 };
                    let submitted_at = an
                        .ops
                        .iter()
                        .find(|o| matches!(s.clients.get(o.c as usize).and_then(|c| c.ops.get(o.i as usize)), Some(Op::Call(_, m) | Op::Send(_, m)) if *m == next_id))
                        .map(|o| t.log[o.begin].time);
                    if next.time != abandoned_at && submitted_at.is_some_and(|st| st <= abandoned_at) {
                        out.push(Violation {
                            clause: "abandoned-at-t",
                            key: format!("C11/next-start-time/{cfg}"),
                            detail: format!("message {id} entered at t={} with timeout {tm}: the next message entered at t={}, expected t={abandoned_at}", en.time, next.time),
                        });
                    }
                }
            }
            std::cmp::Ordering::Equal => {
                crate::check::oblige("tie-consistent");
                // either outcome; but consistent: the after mark and the call result agree
                if let Some(c) = call {
                    if c.end.is_some() && c.ok() != exit.is_some() {
                        out.push(Violation {
                            clause: "tie-consistent",
                            key: format!("C11/tie-inconsistent/{cfg}"),
                            detail: format!("message {id} needs exactly the timeout: completed={} but call returned {:?}", exit.is_some(), c.res),
                        });
                    }
                }
                if exit.is_none() && first_exceeded.is_none() && x.timeout.is_some() {
                    first_exceeded = Some(id);
                }
            }
        }
    }
    // an abandoned invocation is not a restart: no lifecycle callback runs because of it
    crate::check::oblige("no-restart-on-timeout");
    let starts = an.enters.iter().filter(|e| e.a == 0 && e.cb == Cb::Started).count();
    let insts: std::collections::BTreeSet<u16> = an.enters.iter().filter(|e| e.a == 0).map(|e| e.inst).collect();
    if starts > 1 || insts.len() > 1 {
        out.push(Violation {
            clause: "no-restart-on-timeout",
            key: format!("C11/restarted-by-timeout/{cfg}/strategy={:?}", x.strat),
            detail: format!("started() ran {starts} times on {} actor value(s) although nobody asked for a restart", insts.len()),
        });
    }
    // state intact: replies carry the fold of the completed messages only
    for o in &an.ops {
        if let Some(Res::Reply(r)) = o.res {
            let want = digest_at.iter().find(|(id, _)| *id == r.id).map(|(_, d)| *d);
            if want != Some(r.digest) {
                out.push(Violation {
                    clause: "state-intact",
                    key: format!("C11/state-after-timeout/{cfg}"),
                    detail: format!("reply {r:?}: expected digest {want:?} (fold of the completed handlers)"),
                });
            }
        }
    }
    // "carries on": an abandoned invocation takes nothing else with it - the interval the actor
    // registered in started() still ticks a full period after the last abandonment (one-sided:
    // a tick handled that late has been sent after it)
    if x.ticking && !x.fail {
        if let (Some(tm), Some(end)) = (x.timeout, term_time) {
            let last_abandoned = handled
                .iter()
                .filter(|en| matches!(en.cb, Cb::Msg(id) if an.exit_of_msg(0, id).is_none()))
                .map(|en| en.time + tm as u64)
                .max();
            if let Some(a) = last_abandoned.filter(|a| a + 3 < end) {
                crate::check::oblige("carries-on-with-its-timers");
                if !an.enters.iter().any(|e| e.a == 0 && matches!(e.cb, Cb::Tick { timer: 1, .. }) && e.time >= a + 2) {
                    out.push(Violation {
                        clause: "carries-on-with-its-timers",
                        key: format!("C11/timers-lost-after-an-abandoned-invocation/{cfg}"),
                        detail: format!("the last abandoned invocation was cut off at t={a}, the actor lived until t={end}, but its interval (period 2) was not handled once from t={} on", a + 2),
                    });
                }
            }
        }
    }
    // carry on vs. fail
    let certain_exceed = handled.iter().any(|en| {
        let Cb::Msg(id) = en.cb else { return false };
        let d = x.durations.iter().find(|(m, _)| *m == id).map(|(_, d)| *d).unwrap_or(0);
        x.timeout.is_some_and(|tm| d > tm)
    });
    if x.fail && certain_exceed {
        crate::check::oblige("fail-on-timeout-terminates");
        // terminates as failed: await Err, join None, no stopped()
        if an.enters.iter().any(|e| e.a == 0 && e.cb == Cb::Stopped) {
            out.push(Violation {
                clause: "fail-on-timeout-terminates",
                key: "C11/stopped-called-after-timeout-failure".into(),
                detail: "stopped() ran although the actor failed on a timeout".into(),
            });
        }
        for o in &an.ops {
            match s.clients.get(o.c as usize).and_then(|c| c.ops.get(o.i as usize)) {
                Some(Op::Await(_)) if o.ok() => out.push(Violation {
                    clause: "fail-on-timeout-terminates",
                    key: "C11/await-ok-after-timeout-failure".into(),
                    detail: "awaiting the address returned Ok although the actor failed on a timeout".into(),
                }),
                Some(Op::Join(_)) if matches!(o.res, Some(Res::Joined(_))) => out.push(Violation {
                    clause: "fail-on-timeout-terminates",
                    key: "C11/join-some-after-timeout-failure".into(),
                    detail: "join returned the actor although it failed on a timeout".into(),
                }),
                _ => {}
            }
        }
        if term.is_none() {
            out.push(Violation {
                clause: "fail-on-timeout-terminates",
                key: "C11/alive-after-timeout-failure".into(),
                detail: "the actor did not terminate".into(),
            });
        }
    }
    if !x.fail || !certain_exceed {
        // every submitted message is eventually entered (the actor carries on)
        // a message that needs exactly the limit may be abandoned - with a zero limit even before
        // its handler is polled for the first time, so it never shows as entered; under
        // fail_on_timeout the actor is then gone for the later ones, too
        // (with a zero limit this can happen to every message, whatever it needs: nothing is
        // required to be entered then - what is required is that no call above the limit says Ok)
        if x.timeout == Some(0) {
            for (id, d) in x.durations.iter().filter(|(_, d)| *d > 0) {
                let call = an.ops.iter().find(|o| matches!(s.clients.get(o.c as usize).and_then(|c| c.ops.get(o.i as usize)), Some(Op::Call(_, m)) if m == id));
                if call.is_some_and(|c| c.ok()) {
                    out.push(Violation {
                        clause: "above-limit-abandoned",
                        key: format!("C11/call-ok-above-limit/{cfg}"),
                        detail: format!("call {id} (needs {d}, timeout 0) returned Ok"),
                    });
                }
            }
            return out;
        }
        let is_tie = |d: u32| x.timeout == Some(d);
        let tie_failed = x.fail && (first_exceeded.is_some() || x.durations.iter().any(|(_, d)| is_tie(*d)));
        if !tie_failed {
            crate::check::oblige("carries-on");
            for (id, d) in &x.durations {
                if is_tie(*d) {
                    continue;
                }
                if an.enter_of_msg(0, *id).is_empty() {
                    out.push(Violation {
                        clause: "carries-on",
                        key: format!("C11/later-message-not-handled/{cfg}"),
                        detail: format!("message {id} was never handled although the actor should carry on"),
                    });
                }
            }
        }
    }
    out
}

/// layout code: callers that give up (see make_case_s)
const GIVE_UP: u8 = 50;
/// layout code: fire and forget, then let go - the one client sends everything and drops its
/// handle; nobody owns, stops or awaits the actor (the limit holds for what is still queued)
const LET_GO: u8 = 60;

thread_local! {
    /// no client owns the actor (see make_case_s)
    static DETACHED: std::cell::Cell<bool> = const { std::cell::Cell::new(false) };
}

fn with_detached<T>(f: impl FnOnce() -> T) -> T {
    DETACHED.with(|s| s.set(true));
    let r = f();
    DETACHED.with(|s| s.set(false));
    r
}

thread_local! {
    /// handlers wait their duration in one-tick pieces (see `Work::split`)
    static SPLIT: std::cell::Cell<bool> = const { std::cell::Cell::new(false) };
}

fn with_split<T>(f: impl FnOnce() -> T) -> T {
    SPLIT.with(|s| s.set(true));
    let r = f();
    SPLIT.with(|s| s.set(false));
    r
}

fn make_case(timeout: Option<u32>, fail: bool, durs: &[u32], mailbox: Mailbox, layout: u8) -> Case {
    make_case_s(timeout, fail, durs, mailbox, layout, Strat::Default)
}

thread_local! {
    /// the limit is given in half-milliseconds (scene tick = 0.5 ms)
    static HALF_MS: std::cell::Cell<bool> = const { std::cell::Cell::new(false) };
    /// the actor registers an interval (timer 1, period 2) in started()
    static TICKING: std::cell::Cell<bool> = const { std::cell::Cell::new(false) };
}

fn make_case_s(timeout: Option<u32>, fail: bool, durs: &[u32], mailbox: Mailbox, layout: u8, strat: Strat) -> Case {
    let mut role = RoleCfg::default();
    let ticking = TICKING.with(|t| t.get());
    // (a scene tick of 0.5 ms: the configured limit is `timeout` half-milliseconds; on the virtual
    // clock it runs out after that many half-milliseconds rounded up to whole ticks, which is what
    // the oracle compares the - whole-tick - handler durations with)
    let tick_us = HALF_MS.with(|h| if h.get() { 500 } else { 1000 });
    role.tick_us = tick_us;
    let limit_in_ticks = timeout.map(|t| crate::world::eff_ticks(t, tick_us) as u32);
    if ticking {
        role.started_actions.push(crate::world::Action::Interval { timer: 1, period: 2 });
    }
    let mut durations = vec![];
    for (k, d) in durs.iter().enumerate() {
        let id = 10 + k as u32;
        durations.push((id, *d));
        role.work.push((id, Work { sleep: *d, split: SPLIT.with(|s| s.get()), ..Work::default() }));
    }
    // layout 0: one client sends all but the last and calls the last; layout 1: one caller per message
    let mut clients = vec![];
    if layout == LET_GO {
        let ops: Vec<Op> = durations.iter().map(|(id, _)| Op::Send(H::Addr(0), *id)).collect();
        clients.push(ClientSpec { init: vec![HInit::Addr], ops });
    } else if layout == GIVE_UP {
        // one client per message; each gives its call up after the first poll (alternating
        // Addr::call and Caller::call): the handler is none of the client's business any more,
        // only the configured limit may abandon it
        for (k, (id, _)) in durations.iter().enumerate() {
            let h = if k % 2 == 0 { H::Addr(0) } else { H::Cal(0) };
            clients.push(ClientSpec { init: vec![HInit::Addr, HInit::Cal], ops: vec![Op::CallAbandon(h, *id), Op::Sleep(1)] });
        }
    } else if layout >= 2 {
        // one client, sequential calls separated by an idle gap (the actor sits idle for
        // `layout` ticks between two messages)
        let mut ops = vec![];
        for (k, (id, _)) in durations.iter().enumerate() {
            if k > 0 {
                ops.push(Op::Sleep(layout as u32));
            }
            ops.push(Op::Call(H::Addr(0), *id));
        }
        clients.push(ClientSpec { init: vec![HInit::Addr], ops });
    } else if layout == 0 {
        let mut ops: Vec<Op> = durations[..durations.len() - 1].iter().map(|(id, _)| Op::Send(H::Addr(0), *id)).collect();
        ops.push(Op::Call(H::Addr(0), durations[durations.len() - 1].0));
        clients.push(ClientSpec { init: vec![HInit::Addr], ops });
    } else {
        for (id, _) in &durations {
            clients.push(ClientSpec { init: vec![HInit::Addr], ops: vec![Op::Call(H::Addr(0), *id)] });
        }
    }
    // the owner waits for the end: join (fail config) or after a long sleep stop + join
    let total: u32 = durs.iter().sum::<u32>() + 3 + if layout >= 2 && layout != GIVE_UP { layout as u32 * durs.len() as u32 } else { 0 };
    if layout == LET_GO {
        // (nobody: the actor ends when it has worked off its mailbox - or fails before)
    } else if DETACHED.with(|d| d.get()) {
        // nobody owns the actor (it is built through the detached terminal `spawn()`): the end
        // comes by stop + await through a plain address
        clients.push(ClientSpec { init: vec![HInit::Addr], ops: vec![Op::Sleep(total), Op::Stop(H::Addr(0)), Op::Await(H::Addr(0))] });
    } else {
        clients.push(ClientSpec { init: vec![HInit::Own], ops: vec![Op::Sleep(total), Op::Consume(H::Own(0))] });
    }
    if fail && layout != LET_GO {
        clients.push(ClientSpec { init: vec![HInit::Addr], ops: vec![Op::Sleep(total), Op::Halt(H::Addr(0))] });
    }
    let desc = format!(
        "timeout{}{} t={timeout:?} fail={fail} durations={durs:?} mailbox={} layout={layout} strategy={strat:?}",
        crate::progscene::variant_tag(),
        if tick_us != 1000 { " [limit given in half-milliseconds]" } else if ticking { " [an interval of period 2 is running]" } else if SPLIT.with(|s| s.get()) { " [handlers wait in one-tick pieces]" } else if DETACHED.with(|d| d.get()) { " [detached terminal spawn()]" } else { "" },
        mailbox.name()
    );
    Case {
        desc,
        exec: ExecCfg { horizon: 200, ..ExecCfg::default() },
        bound: None,
        scene: Box::new(ProgScene { variant: crate::progscene::current_variant(),
            spawn: SpawnCfg { mailbox, strat, timeout: timeout.map(|t| (t, fail)) },
            attach: Attach::None,
            roles: vec![role],
            clients,
            extra: X { strat, timeout: limit_in_ticks, fail, durations, ticking },
            oracle,
        }),
    }
}

fn base_cases(tier: Tier) -> Vec<Case> {
    let mut v = vec![];
    // (0 is a legal limit too: whatever suspends at all is abandoned at once)
    let ts: &[u32] = &[0, 1, 2, 5];
    let mbs = [Mailbox::U, Mailbox::B(1)];
    for &t in ts {
        let mut ds = vec![0, t.saturating_sub(1), t, t + 1, 2 * t];
        ds.sort();
        ds.dedup();
        for fail in [false, true] {
            for &mb in &mbs {
                for layout in [0u8, 1] {
                    for &a in &ds {
                        v.push(make_case(Some(t), fail, &[a], mb, layout));
                        for &b in &ds {
                            v.push(make_case(Some(t), fail, &[a, b], mb, layout));
                            if tier == Tier::Thorough || (layout == 0 && mb == Mailbox::U) {
                                for &c in &ds {
                                    v.push(make_case(Some(t), fail, &[a, b, c], mb, layout));
                                }
                            }
                        }
                    }
                }
            }
        }
    }
    // the other restart strategies: an abandoned handler must not reset or restart the actor
    for &t in &[1u32, 2] {
        for strat in [Strat::Recreate, Strat::NonRestartable] {
            for fail in [false, true] {
                for a in [0, t + 1] {
                    for b in [0, t + 1] {
                        v.push(make_case_s(Some(t), fail, &[a, b], Mailbox::U, 0, strat));
                        if tier == Tier::Thorough {
                            v.push(make_case_s(Some(t), fail, &[a, b, t - 1], Mailbox::B(1), 1, strat));
                        }
                    }
                }
            }
        }
    }
    // idle gaps between messages: the budget of a handler starts when it starts, not earlier
    for &t in ts {
        let mut ds = vec![0, t.saturating_sub(1), t, t + 1];
        ds.sort();
        ds.dedup();
        for fail in [false, true] {
            for &mb in &mbs {
                for gap in [t, 2 * t + 1] {
                    for &a in &ds {
                        for &b in &ds {
                            v.push(make_case(Some(t), fail, &[a, b], mb, gap.max(2) as u8));
                            if tier == Tier::Thorough {
                                for &c in &ds {
                                    v.push(make_case(Some(t), fail, &[a, b, c], mb, gap.max(2) as u8));
                                }
                            }
                        }
                    }
                }
            }
        }
    }
    // callers that give up: with or without a limit, a handler is never abandoned because its
    // caller lost interest
    for t in [None, Some(2u32)] {
        for fail in [false, true] {
            if t.is_none() && fail {
                continue;
            }
            for &mb in &mbs {
                for a in [0u32, 1, 3] {
                    v.push(make_case(t, fail, &[a], mb, GIVE_UP));
                    for b in [0u32, 1, 3] {
                        v.push(make_case(t, fail, &[a, b], mb, GIVE_UP));
                    }
                }
            }
        }
    }
    // no timeout configured: nothing is ever abandoned
    for &mb in &mbs {
        for layout in [0u8, 1] {
            for a in [0u32, 1, 5, 10] {
                for b in [0u32, 3, 10] {
                    v.push(make_case(None, false, &[a, b], mb, layout));
                }
            }
        }
    }
    v
}

/// The family with the builder's timeout options in the documented order, plus every fifth
/// case (thorough: every second) in each of the three other orders the builder allows.
fn cases(tier: Tier) -> Vec<Case> {
    let mut v = base_cases(tier);
    // the limit is on the whole invocation, however often the handler is woken in between:
    // the same family with every duration waited as separate one-tick waits
    // (every wake-up is one more select! poll, i.e. one more explored tie-break: short limits only)
    let short = |d: &str| (d.contains("t=Some(1)") || d.contains("t=Some(2)")) && (tier == Tier::Thorough || d.matches(',').count() <= 1);
    v.extend(with_split(|| base_cases(tier)).into_iter().filter(|c| short(&c.desc)));
    // the builder's other terminal: the same limits apply to an actor that nobody owns (every
    // third case; thorough: all)
    let step = if tier == Tier::Thorough { 1 } else { 3 };
    v.extend(with_detached(|| base_cases(tier)).into_iter().enumerate().filter(|(i, c)| i % step == 0 && !c.desc.contains("t=None")).map(|(_, c)| c));
    // the limit holds for letters that are still queued when the last handle has gone
    for fail in [false, true] {
        for &mb in &[Mailbox::U, Mailbox::B(1)] {
            for durs in [vec![4u32], vec![0, 4], vec![1, 4, 0], vec![4, 4]] {
                v.push(make_case(Some(2), fail, &durs, mb, LET_GO));
            }
        }
    }
    // a limit that is not a whole number of milliseconds: 2.5 ms (three ticks of the virtual
    // clock) - a handler of 2 ms completes, one of 4 ms is abandoned
    HALF_MS.with(|h| h.set(true));
    for fail in [false, true] {
        for &mb in &[Mailbox::U, Mailbox::B(1)] {
            for layout in [0u8, 1] {
                for durs in [vec![2u32], vec![2, 0], vec![4, 2], vec![0, 2, 4]] {
                    let mut c = make_case(Some(5), fail, &durs, mb, layout);
                    // (the real tokio clock of the cross-check works in whole milliseconds)
                    c.exec.real_crosscheck = false;
                    v.push(c);
                }
            }
        }
    }
    HALF_MS.with(|h| h.set(false));
    // an actor with a timer of its own: an abandoned invocation takes nothing else with it
    TICKING.with(|t| t.set(true));
    for &mb in &[Mailbox::U, Mailbox::B(1)] {
        for layout in [0u8, 1] {
            for durs in [vec![3u32], vec![3, 0], vec![0, 3, 1], vec![3, 3]] {
                let mut c = make_case(Some(2), false, &durs, mb, layout);
                // (tick handlers are instant: the limit's select! never has both arms ready for them)
                c.bound = Some(if tier == Tier::Thorough { 5 } else { 3 });
                v.push(c);
            }
        }
    }
    TICKING.with(|t| t.set(false));
    for order in [1u8, 2, 3, 4, 5] {
        let var = crate::progscene::Variant { builder_order: order, ..Default::default() };
        let extra = crate::progscene::with_variant(var, || base_cases(tier));
        let step = if tier == Tier::Thorough { 2 } else { 5 };
        v.extend(extra.into_iter().enumerate().filter(|(i, c)| i % step == (order as usize) % step && !c.desc.contains("t=None")).map(|(_, c)| c));
    }
    v
}

pub fn property() -> Property {
    Property {
        id: "C11",
        cases,
        clauses: &["no-restart-on-timeout", "below-limit-completes", "no-timeout-completes", "above-limit-abandoned", "tie-consistent", "fail-on-timeout-terminates", "carries-on", "carries-on-with-its-timers"],
        full_rerun_check: true,
        assumptions: &[
            "handler durations are virtual sleeps; computation itself takes no virtual time (that is what 'needs less than t' means on the virtual clock)",
            "a handler that needs exactly t may complete or be abandoned (the select! tie-break is explored as a choice)",
            "the plain event loop only: the stream loop does not read the timeout configuration (outside the property's quantifier)",
        ],
    }
}
