//! C17: OwningAddr hands back the actor's final state exactly once.

use crate::{
    check::{Case, Property, Tier, Trace, Violation},
    ops::{Op, H},
    progscene::{ClientSpec, HInit, ProgScene, FULL},
    props::c01::{msg_id, seqs, to_op, L},
    scenes::{Mailbox, SpawnCfg},
    trace::An,
    vexec::ExecCfg,
    world::{fold, Cb, Res, RoleCfg, StartBeh, Work, DIGEST0},
};

#[derive(Clone, Copy, Debug, PartialEq, Eq)]
pub enum Fail {
    No,
    HandlerPanic,
    StartErr,
    StoppedPanic,
    /// a client asks for a restart; the start of the new incarnation fails
    StartErrOnRestart,
    /// a handler outlasts a fatal limit (timeout 2, fail_on_timeout)
    FatalTimeout,
    /// a handler outlasts a carry-on limit (timeout 2): abandoned, and no failure at all - the
    /// actor carries on and the owner gets it with everything else that was handled
    Overrun,
}

pub struct X {
    owner_script: &'static str,
    /// the message whose handler is cut off by a carry-on limit (it logs no exit; no failure)
    abandoned: Option<u32>,
}

pub fn owner_scripts() -> Vec<(&'static str, Vec<Op>)> {
    let o = H::Own(0);
    vec![
        ("join", vec![Op::Join(o)]),
        ("join-join", vec![Op::Join(o), Op::Join(o)]),
        ("2pending-joins-01", vec![Op::JoinStart(o), Op::JoinStart(o), Op::JoinAwait(0), Op::JoinAwait(1)]),
        ("2pending-joins-10", vec![Op::JoinStart(o), Op::JoinStart(o), Op::JoinAwait(1), Op::JoinAwait(0)]),
        ("consume", vec![Op::Consume(o)]),
        ("consume_sync", vec![Op::ConsumeSync(o), Op::JoinAwait(0)]),
        ("use-then-consume", vec![Op::Send(o, 901), Op::Call(o, 902), Op::Consume(o)]),
        ("detach-call", vec![Op::Detach(o), Op::Call(H::Addr(0), 903)]),
        ("to_addr-drop-call", vec![Op::ToAddr(o), Op::Drop(o), Op::Call(H::Addr(0), 904)]),
        // a call the owner gives up after submitting it is in the mailbox all the same: it is part
        // of the final state
        ("abandon-call-then-consume", vec![Op::Send(o, 901), Op::CallAbandon(o, 908), Op::Consume(o)]),
        ("late-consume", vec![Op::Sleep(2), Op::Consume(o)]),
        ("late-join", vec![Op::Sleep(2), Op::Join(o)]),
        ("late-join-join", vec![Op::Sleep(2), Op::Join(o), Op::Join(o)]),
        ("late-consume_sync", vec![Op::Sleep(2), Op::ConsumeSync(o)]),
        ("join-then-consume", vec![Op::Join(o), Op::Consume(o)]),
        // the join future outlives the owner: messages accepted before the owner went away are
        // part of the final state
        ("send-joinstart-drop-owner-await", vec![Op::Send(o, 901), Op::Send(o, 902), Op::JoinStart(o), Op::Drop(o), Op::JoinAwait(0)]),
        ("joinstart-send-drop-owner-await", vec![Op::JoinStart(o), Op::Send(o, 903), Op::Call(o, 904), Op::Send(o, 905), Op::Drop(o), Op::JoinAwait(0)]),
        // the owner is detached while a join future exists (created only, or already in flight):
        // the future still yields the actor - nobody else can
        ("joinstart-detach-await", vec![Op::JoinStart(o), Op::Detach(o), Op::Call(H::Addr(0), 906), Op::JoinAwait(0)]),
        ("joinstart-polled-detach-await", vec![Op::JoinStart(o), Op::JoinPollOnce(0), Op::Detach(o), Op::Call(H::Addr(0), 907), Op::JoinAwait(0)]),
        // two joins pending at the same time in two different tasks (the second future is handed
        // to a helper client, which awaits it; the stopper comes later): both resolve when the
        // actor terminates, one of them with the value
        ("2pending-joins-two-tasks", vec![Op::JoinStart(o), Op::JoinStart(o), Op::JoinGive(1), Op::JoinAwait(0)]),
        ("2pending-joins-two-tasks-polled", vec![Op::JoinStart(o), Op::JoinPollOnce(0), Op::JoinStart(o), Op::JoinGive(1), Op::Sleep(2), Op::JoinAwait(0)]),
    ]
}

fn oracle(s: &ProgScene<X>, t: &Trace) -> Vec<Violation> {
    let an = An::new(t.log);
    let mut out = vec![];
    let script = s.extra.owner_script;
    let term = an.task_end(0);
    let stopped_exit = an.exits.iter().find(|e| e.a == 0 && e.cb == Cb::Stopped).map(|e| e.idx);
    let graceful = matches!(term, Some((_, false))) && stopped_exit.is_some() && !an.role_failed_except(0, &s.roles[0].started, s.extra.abandoned);
    let op_at = |c: u8, i: u16| s.clients.get(c as usize).and_then(|cs| cs.ops.get(i as usize));
    // join / consume yield the value or None - a failed actor's panic is not re-thrown into the owner
    for o in &an.ops {
        if o.res == Some(Res::Panicked) {
            out.push(Violation {
                clause: "join-yields-value-or-none",
                key: format!("C17/owner-op-panicked/script={script:?}"),
                detail: format!("client {} op {} {:?} panicked", o.c, o.i, op_at(o.c, o.i)),
            });
        }
    }
    // "its final state - after its last handler": what the owner script got accepted (send
    // returned Ok) before everything was let go is handled before the graceful end
    // (only where nobody else stops the actor: a send that lands behind another client's stop
    // request is accepted and, by C04, never handled)
    let foreign_stop = s.clients.iter().skip(1).any(|c| c.ops.iter().any(|op| matches!(op, Op::Stop(_) | Op::Halt(_))));
    if graceful && !foreign_stop && t.res.end == crate::vexec::EndReason::Quiescent {
        for o in an.ops.iter().filter(|o| o.c == 0 && o.res == Some(Res::Abandoned)) {
            if let Some(Op::CallAbandon(_, id)) = op_at(o.c, o.i) {
                crate::check::oblige("final-state-includes-accepted");
                if an.exit_of_msg(0, *id).is_none() {
                    out.push(Violation {
                        clause: "final-state-includes-accepted",
                        key: format!("C17/abandoned-call-not-in-final-state/script={script}"),
                        detail: format!("the owner submitted call {id} and gave up waiting for its answer; the actor ended gracefully without ever handling it: the joined value is not the final state"),
                    });
                }
            }
        }
        for o in an.ops.iter().filter(|o| o.c == 0 && o.ok()) {
            if let Some(Op::Send(_, id)) = op_at(o.c, o.i) {
                crate::check::oblige("final-state-includes-accepted");
                if an.exit_of_msg(0, *id).is_none() {
                    out.push(Violation {
                        clause: "final-state-includes-accepted",
                        key: format!("C17/accepted-message-not-in-final-state/script={script}"),
                        detail: format!("the owner's send of message {id} had returned Ok, the actor ended gracefully, but the message was never handled: the joined value is not the final state"),
                    });
                }
            }
        }
    }
    // expected final state
    // (a restart under recreate-from-default starts a fresh value: the state starts over with it,
    // and it is that value the join hands out)
    let mut digest = DIGEST0;
    let mut handled = 0u32;
    let mut last_inst: Option<u16> = None;
    // (a restart somebody asked for, that is: a fresh value nobody asked for has lost the state)
    let asked = an.ops.iter().filter(|o| o.ok() && matches!(s.clients.get(o.c as usize).and_then(|cs| cs.ops.get(o.i as usize)), Some(crate::ops::Op::Restart(_)))).count()
        + t.log.iter().filter(|e| matches!(e.ev, crate::world::Ev::Ctx { a: 0, op: crate::world::CtxOp::Restart, ok: true })).count();
    let mut fresh_values = 0usize;
    for e in &an.exits {
        if e.a == 0 && e.cb == Cb::Started && last_inst != Some(e.inst) {
            if last_inst.is_none() || fresh_values < asked {
                digest = DIGEST0;
                handled = 0;
            }
            if last_inst.is_some() {
                fresh_values += 1;
            }
            last_inst = Some(e.inst);
        }
        if let (0, Cb::Msg(id)) = (e.a, e.cb) {
            digest = fold(digest, id);
            handled += 1;
        }
    }
    // the configured strategy is what decides whether a restart makes a new value - not what
    // happened to be observed
    let recreate = s.spawn.strat == crate::scenes::Strat::Recreate || (s.variant.recreate && s.spawn.strat == crate::scenes::Strat::Default);
    let starts: Vec<u16> = an.exits.iter().filter(|e| e.a == 0 && e.cb == Cb::Started).map(|e| e.inst).collect();
    for w in starts.windows(2) {
        crate::check::oblige("final-state-of-the-configured-strategy");
        if recreate == (w[0] == w[1]) {
            out.push(Violation {
                clause: "final-state",
                key: format!("C17/restart-strategy-not-applied/script={script}"),
                detail: format!(
                    "the actor was built {} but a restart {}: the value the owner gets back is not the one the configuration promises",
                    if recreate { "with recreate_from_default()" } else { "with the default strategy" },
                    if w[0] == w[1] { "kept the old value" } else { "made a new value" }
                ),
            });
        }
    }
    let mut somes = 0;
    let mut joins_done = 0;
    for o in &an.ops {
        let Some(op) = op_at(o.c, o.i) else { continue };
        let is_join = matches!(op, Op::Join(_) | Op::JoinAwait(_) | Op::Consume(_));
        if !is_join {
            continue;
        }
        // JoinAwait on a slot that consume_sync never filled (its stop was rejected): no join
        if matches!(op, Op::JoinAwait(_)) && matches!(o.res, Some(Res::Err(crate::world::ErrKind::NotFound))) {
            continue;
        }
        let name = format!("{op:?}").split('(').next().unwrap_or("").to_string();
        match (o.end, term) {
            (None, Some(_)) => out.push(Violation {
                clause: "join-resolves",
                key: format!("C17/join-hangs/{name}/script={script}"),
                detail: format!("{op:?} never resolved although the actor terminated"),
            }),
            (Some(end), _) => {
                // a consume whose stop was rejected returns early by design of `?`
                let early_err = matches!(op, Op::Consume(_)) && matches!(o.res, Some(Res::Err(crate::world::ErrKind::Send)));
                if !early_err {
                    crate::check::oblige("join-after-termination");
                    joins_done += 1;
                    // "later joins yield None": a join that finds another join future already
                    // created (which holds the task handle by then, or will) may say None at once
                    let other_join_exists = an.ops.iter().any(|p| p.begin < end && !(p.c == o.c && p.i == o.i) && matches!(op_at(p.c, p.i), Some(Op::JoinStart(_) | Op::Join(_))))
                        && an.ops.iter().filter(|p| p.begin < end && matches!(op_at(p.c, p.i), Some(Op::JoinStart(_) | Op::Join(_)))).count() >= 2;
                    match term {
                        Some((tidx, _)) if end > tidx => {}
                        _ if o.res == Some(Res::None) && other_join_exists => {}
                        _ => out.push(Violation {
                            clause: "join-after-termination",
                            key: format!("C17/join-resolved-before-termination/{name}/script={script}"),
                            detail: format!("{op:?} resolved at {end}, actor task ended at {term:?}"),
                        }),
                    }
                }
                match o.res {
                    Some(Res::Joined(j)) => {
                        somes += 1;
                        if !graceful {
                            out.push(Violation {
                                clause: "none-on-failure",
                                key: format!("C17/value-after-failure/{name}/script={script}"),
                                detail: format!("{op:?} returned the actor although it failed"),
                            });
                        }
                        if j.digest != digest || j.handled != handled || !j.stopped_seen || last_inst.is_some_and(|i| i != j.inst) {
                            out.push(Violation {
                                clause: "final-state",
                                key: format!("C17/not-final-state/{name}/script={script}"),
                                detail: format!("{op:?} returned {j:?}; expected digest {digest:x} over {handled} messages with stopped() seen"),
                            });
                        }
                    }
                    Some(Res::Err(_)) if matches!(op, Op::Consume(_)) && graceful && somes == 0 => {
                        // consume on an actor that terminated gracefully (its stop is rejected)
                        let others = an.ops.iter().any(|p| p.end.is_some_and(|e| e < o.begin) && matches!(p.res, Some(Res::Joined(_))));
                        if !others {
                            out.push(Violation {
                                clause: "consume-yields-value-on-graceful",
                                key: "C17/consume-after-graceful-termination-loses-value".to_string(),
                                detail: format!("consume() returned {:?} for an actor that had terminated gracefully and whose value nobody had taken; the owning address is gone, the value is lost", o.res),
                            });
                        }
                    }
                    _ => {}
                }
            }
            _ => {}
        }
    }
    if graceful && joins_done > 0 {
        crate::check::oblige("value-handed-out-once");
    }
    if !graceful && joins_done > 0 {
        crate::check::oblige("none-on-failure");
    }
    if graceful && joins_done > 0 && somes != 1 {
        // exactly one of the completed joins gets the value
        let early_only = an.ops.iter().all(|o| !matches!(o.res, Some(Res::Joined(_))))
            && an.ops.iter().any(|o| matches!(op_at(o.c, o.i), Some(Op::Consume(_))) && matches!(o.res, Some(Res::Err(_))));
        if !(early_only && joins_done == 0) {
            out.push(Violation {
                clause: "value-handed-out-once",
                key: format!("C17/value-count-{}/script={script}", somes.min(2)),
                detail: format!("{somes} of {joins_done} completed joins returned the actor after a graceful termination"),
            });
        }
    }
    if somes > 1 {
        out.push(Violation {
            clause: "value-handed-out-once",
            key: format!("C17/value-duplicated/script={script}"),
            detail: format!("{somes} joins returned an actor value"),
        });
    }
    // behaves as a strong handle / detach does not affect the actor: calls through derived
    // addresses made while the actor was alive and unstopped succeed
    for o in &an.ops {
        if let Some(Op::Call(H::Addr(0), id @ (903 | 904))) = op_at(o.c, o.i) {
            let stop_or_fail_before = an.ops.iter().any(|p| p.begin < o.begin && matches!(op_at(p.c, p.i), Some(Op::Stop(_)))) || !graceful;
            if !stop_or_fail_before && !o.ok() {
                out.push(Violation {
                    clause: "detach-keeps-actor",
                    key: format!("C17/call-after-detach-failed/script={script}"),
                    detail: format!("call {id} after detach/to_addr+drop returned {:?}", o.res),
                });
            }
        }
    }
    out
}

fn make_case(script: (&'static str, Vec<Op>), subs: &[Vec<L>], stopper: bool, fail: Fail, mailbox: Mailbox) -> Case {
    make_case_slow(script, subs, stopper, fail, mailbox, None)
}

/// `slow_stop`: a handler timeout of 2 ticks (with this fail_on_timeout) is configured and
/// stopped() takes 5 ticks - the timeout is about handlers, stopped() still runs to its end
fn make_case_slow(script: (&'static str, Vec<Op>), subs: &[Vec<L>], stopper: bool, fail: Fail, mailbox: Mailbox, slow_stop: Option<bool>) -> Case {
    let mut clients = vec![ClientSpec { init: vec![HInit::Own], ops: script.1.clone() }];
    for (c, p) in subs.iter().enumerate() {
        let ops: Vec<Op> = p.iter().enumerate().map(|(i, l)| to_op(*l, msg_id(c + 1, i))).collect();
        clients.push(ClientSpec { init: FULL.to_vec(), ops });
    }
    let two_tasks = script.0.contains("two-tasks");
    if stopper {
        // (with two joining tasks the stop comes once both joins are pending)
        clients.push(ClientSpec { init: vec![HInit::Addr], ops: if two_tasks { vec![Op::Sleep(3), Op::Stop(H::Addr(0))] } else { vec![Op::Stop(H::Addr(0))] } });
    }
    if two_tasks {
        clients.push(ClientSpec { init: vec![], ops: vec![Op::Sleep(1), Op::JoinTake, Op::JoinAwait(0)] });
    }
    let mut role = RoleCfg { stopped_yields: 1, ..RoleCfg::default() };
    match fail {
        Fail::No => {}
        Fail::HandlerPanic => role.work.push((msg_id(1, 0), Work { panic: true, ..Work::default() })),
        Fail::StartErr => role.started.push(StartBeh::Err),
        Fail::StoppedPanic => role.stopped_panic = true,
        Fail::StartErrOnRestart => {
            role.started = vec![StartBeh::Ok, StartBeh::Err];
            clients.push(ClientSpec { init: vec![HInit::Addr], ops: vec![Op::Restart(H::Addr(0))] });
        }
        Fail::FatalTimeout | Fail::Overrun => role.work.push((msg_id(1, 0), Work { sleep: 5, ..Work::default() })),
    }
    let mut spawn = SpawnCfg::plain(mailbox);
    if fail == Fail::FatalTimeout {
        spawn.timeout = Some((2, true));
    }
    if fail == Fail::Overrun {
        spawn.timeout = Some((2, false));
    }
    if RECREATE.with(|r| r.get()) {
        spawn.strat = crate::scenes::Strat::Recreate;
    }
    if let Some(f) = slow_stop {
        spawn.timeout = Some((2, f));
        role.stopped_sleep = 5;
    }
    let desc = format!(
        "owning{}{} slow_stop={slow_stop:?} mailbox={} script={} stopper={} fail={:?} subs={}",
        crate::progscene::variant_tag(),
        if RECREATE.with(|r| r.get()) { " [recreate-from-default]" } else { "" },
        mailbox.name(),
        script.0,
        stopper,
        fail,
        subs.iter().map(|p| p.iter().map(|l| format!("{l:?}")).collect::<Vec<_>>().join(",")).collect::<Vec<_>>().join(" | ")
    );
    Case {
        desc,
        // a join future polled exactly once sees whether the handle's lock suspends
        exec: ExecCfg { lock_yield_is_choice: script.0.contains("polled"), ..ExecCfg::default() },
        bound: None,
        scene: Box::new(ProgScene { variant: crate::progscene::current_variant(), attach: crate::progscene::attach_for(mailbox), spawn, roles: vec![role], clients, extra: X { owner_script: script.0, abandoned: (fail == Fail::Overrun).then(|| msg_id(1, 0)) }, oracle }),
    }
}

thread_local! {
    /// the actor is built with recreate_from_default()
    static RECREATE: std::cell::Cell<bool> = const { std::cell::Cell::new(false) };
}

/// does the script terminate the actor by itself (consume / dropping the last handle)?
fn self_terminating(name: &str) -> bool {
    matches!(name, "consume" | "consume_sync" | "use-then-consume" | "abandon-call-then-consume" | "detach-call" | "to_addr-drop-call" | "late-consume" | "late-consume_sync" | "send-joinstart-drop-owner-await" | "joinstart-send-drop-owner-await")
}

fn plain_cases(tier: Tier) -> Vec<Case> {
    let mut v = vec![];
    let alpha = [L::SendAddr, L::CallAddr, L::CallCal];
    let mbs: &[Mailbox] = if tier == Tier::Quick { &[Mailbox::U, Mailbox::B(1)] } else { &[Mailbox::U, Mailbox::B(0), Mailbox::B(1)] };
    for &mb in mbs {
        for script in owner_scripts() {
            for fail in [Fail::No, Fail::HandlerPanic, Fail::StartErr, Fail::StoppedPanic, Fail::StartErrOnRestart, Fail::FatalTimeout] {
                for stopper in [false, true] {
                    // the scene must terminate: a pure join needs a stop or a failure
                    let terminates = stopper || self_terminating(script.0) || matches!(fail, Fail::HandlerPanic | Fail::StartErr | Fail::StartErrOnRestart | Fail::FatalTimeout);
                    if !terminates {
                        continue;
                    }
                    // late-* scripts are about "terminated elsewhere first"
                    if script.0.starts_with("late-") && !stopper && fail == Fail::No {
                        continue;
                    }
                    let nmax = if tier == Tier::Quick { 1 } else { 2 };
                    for n in 1..=nmax {
                        for p in seqs(&alpha, n) {
                            v.push(make_case(script.clone(), &[p], stopper, fail, mb));
                        }
                    }
                    if tier == Tier::Thorough {
                        for a in seqs(&alpha, 1) {
                            for b in seqs(&alpha, 1) {
                                v.push(make_case(script.clone(), &[a.clone(), b], stopper, fail, mb));
                            }
                        }
                    }
                }
            }
        }
    }
    // a (successful) restart between submissions, under both restartable strategies: the owner gets
    // the value of the last incarnation in its final state
    for recreate in [false, true] {
        RECREATE.with(|r| r.set(recreate));
        for script in owner_scripts() {
            if !matches!(script.0, "join" | "consume" | "late-join" | "consume_sync" | "send-joinstart-drop-owner-await") {
                continue;
            }
            for &mb in &[Mailbox::U, Mailbox::B(1)] {
                for sub in [vec![L::SendAddr, L::Restart, L::SendAddr], vec![L::CallAddr, L::Restart], vec![L::Restart, L::CallCal, L::Restart, L::SendAddr]] {
                    let stopper = !self_terminating(script.0);
                    v.push(make_case(script.clone(), &[sub], stopper, Fail::No, mb));
                }
            }
        }
        RECREATE.with(|r| r.set(false));
    }
    // a handler overruns a carry-on limit and is abandoned, under both restartable strategies: that
    // is no failure and no restart - the owner gets the same value, with what the other messages
    // made of it
    for recreate in [false, true] {
        RECREATE.with(|r| r.set(recreate));
        for script in owner_scripts() {
            if !matches!(script.0, "join" | "consume" | "late-join" | "late-consume" | "consume_sync") {
                continue;
            }
            for &mb in &[Mailbox::U, Mailbox::B(1)] {
                for sub in [vec![L::SendAddr, L::SendAddr], vec![L::SendAddr, L::CallAddr, L::SendAddr], vec![L::CallAddr, L::SendAddr]] {
                    let stopper = !self_terminating(script.0);
                    v.push(make_case(script.clone(), &[vec![L::SendAddr], sub], stopper, Fail::Overrun, mb));
                }
            }
        }
        RECREATE.with(|r| r.set(false));
    }
    // a handler timeout is configured and stopped() takes longer than it
    for script in owner_scripts() {
        if !matches!(script.0, "join" | "consume" | "use-then-consume" | "late-join" | "consume_sync") {
            continue;
        }
        for f in [false, true] {
            for stopper in [false, true] {
                if !(stopper || self_terminating(script.0)) {
                    continue;
                }
                v.push(make_case_slow(script.clone(), &[vec![L::SendAddr]], stopper, Fail::No, Mailbox::U, Some(f)));
                v.push(make_case_slow(script.clone(), &[vec![L::CallAddr]], stopper, Fail::No, Mailbox::B(1), Some(f)));
            }
        }
    }
    v
}

/// The family on the plain event loop, plus (every third case in the quick tier, all of them in
/// the thorough tier) the same programs on the stream loop: the actor is attached to a stream
/// that stays open and never yields, so `create_loop_on_stream` serves the mailbox.
fn cases(tier: Tier) -> Vec<Case> {
    let mut v = plain_cases(tier);
    let s = crate::progscene::with_stream_variant(|| plain_cases(tier));
    v.extend(s.into_iter().enumerate().filter(|(i, c)| (tier == Tier::Thorough || i % 3 == 0)).map(|(_, mut c)| {
        // the attached stream is never ready, so the loop's select! tie-break cannot change anything:
        // it is not explored as a choice here (C13 explores it, with streams that do yield)
        c.exec.select_choice = false;
        c
    }));
    // the fatal limit given to the builder in its other orders (before / after the mailbox,
    // fail_on_timeout before / after timeout, given twice): the actor fails all the same
    for order in [1u8, 2, 3, 4, 5] {
        let var = crate::progscene::Variant { builder_order: order, ..Default::default() };
        let extra = crate::progscene::with_variant(var, || plain_cases(tier));
        v.extend(extra.into_iter().filter(|c| c.desc.contains("fail=FatalTimeout")).enumerate().filter(|(i, _)| tier == Tier::Thorough || i % 5 == (order as usize) % 5).map(|(_, c)| c));
    }
    // ... and (every fourth case; thorough: every second) once more under a configuration that must
    // not matter: a handler timeout nothing comes near, and the recreate strategy
    let nv = crate::progscene::Variant { generous_timeout: true, recreate: true, builder_order: 0, owner_dropped: false };
    let n = crate::progscene::with_variant(nv, || plain_cases(tier));
    let step = if tier == Tier::Thorough { 2 } else { 4 };
    v.extend(n.into_iter().enumerate().filter(|(i, _)| i % step == 1).map(|(_, mut c)| {
        // no handler takes anywhere near 50 ticks, so the timeout's select! never has both arms ready
        c.exec.select_choice = false;
        c
    }));
    v
}

pub fn property() -> Property {
    Property {
        id: "C17",
        cases,
        clauses: &["join-after-termination", "value-handed-out-once", "none-on-failure"],
        full_rerun_check: true,
        assumptions: &[
            "consume_sync documents that a rejected stop is reported before any waiting; that early error is not held against it",
            "'later joins yield None' is read to include a join that is started while another join future already exists: it may say None at once, before the actor has terminated (the other future holds the task handle); every other join resolves at termination, not before",
        ],
    }
}
