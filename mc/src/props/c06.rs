//! C06: failure of one actor is contained and visible as errors, never as hangs.
//!
//! Actor A (role 0) fails in every way of the fault alphabet, at every position, in a scene with
//! a bystander B that calls A from its handler, clients with pending and later operations,
//! awaiters and an owner, two children (one also held outside), timers registered by A, and A
//! registered as a service. Sub-scenes enable one group each (all schedules); the full scene
//! enables everything (deviation-bounded).

use hannibal::{prelude::*, Addr};

use crate::{
    check::{Case, Property, Scene, Tier, Trace, Violation},
    ops::{run_client, Handles, Op, H},
    props::{c02::Cause, c08},
    scenes::{block_inline, spawn_probe, Mailbox, SpawnCfg, Strat},
    trace::An,
    vexec::{Exec, ExecCfg},
    world::{self, store_put, Action, Cb, CtxOp, Ev, Probe, Res, RoleCfg, StartBeh, Stored, Work, XEv, P, W},
};

#[derive(Clone, Copy, Debug, Default, PartialEq, Eq)]
struct Parts {
    bystander: bool,
    children: bool,
    timers: bool,
    registry: bool,
    awaiters: bool,
    late_ops: bool,
    /// A and two healthy actors subscribe to a broker topic; a publication made after A's
    /// failure - A's address still held - reaches both healthy ones
    broker: bool,
    /// the start that fails (causes StartErr / StartPanic) is the one of a *restart*, requested
    /// by the driver at t=2: the first incarnation ran, registered its timers, took its children
    on_restart: bool,
    /// registry: the instance spawned on demand after A's failure fails in started() as well,
    /// while another client installs a healthy instance with replace(): the healthy one stays
    respawn_race: bool,
    /// the owner has a join in flight (polled once, pending) from before the failure and asks
    /// for a second one after it: both resolve, neither with the actor
    inflight_join: bool,
    /// A's only timers are delayed_exec futures that take a while themselves (zero delay)
    long_exec: bool,
}

struct S {
    parts: Parts,
    cause: Cause,
    mailbox: Mailbox,
}

const PANIC_MSG: u32 = 700;
const SLOW_MSG: u32 = 701;
const B_PEER1: u32 = 710;
const B_PEER2: u32 = 711;
const B_PLAIN: u32 = 712;

// client ids
const DRIVER: u8 = 0;
const BUSER: u8 = 1;
const AWAITER: u8 = 2;
const OWNER: u8 = 3;
const LATE: u8 = 4;
const OUTSIDE: u8 = 5;
const REG: u8 = 6;
const PUB: u8 = 7;
const REPLACER: u8 = 8;
const TOPIC_MSG: u32 = 77;

pub async fn registry_client(c: u8) {
    use futures::FutureExt as _;
    let mut held: Option<Addr<Probe<0>>> = None;
    let ops = [c08::ROp::TryFromRegistry, c08::ROp::AlreadyRunning, c08::ROp::FromRegistry, c08::ROp::TryFromRegistry, c08::ROp::AlreadyRunning, c08::ROp::FromRegistry];
    world::log(Ev::Begin { c, i: 0 });
    world::sleep(8).await;
    world::log(Ev::End { c, i: 0, r: Res::Ok });
    for (k, op) in ops.iter().enumerate() {
        let i = k as u16 + 1;
        world::log(Ev::Begin { c, i });
        let r = std::panic::AssertUnwindSafe(c08::reg_op::<0>(&mut held, *op)).catch_unwind().await.unwrap_or(Res::Panicked);
        world::log(Ev::End { c, i, r });
    }
}

impl Scene for S {
    fn roles(&self) -> Vec<RoleCfg> {
        let mut v = vec![RoleCfg::default(); 5];
        match self.cause {
            Cause::StartErr if self.parts.on_restart => v[0].started = vec![StartBeh::Ok, StartBeh::Err],
            Cause::StartPanic if self.parts.on_restart => v[0].started = vec![StartBeh::Ok, StartBeh::Panic],
            Cause::StartErr => v[0].started.push(StartBeh::Err),
            Cause::StartPanic => v[0].started.push(StartBeh::Panic),
            Cause::HandlerPanic(_) => v[0].work.push((PANIC_MSG, Work { panic: true, ..Work::default() })),
            Cause::StoppedPanic => v[0].stopped_panic = true,
            Cause::TimeoutFail(_) => v[0].work.push((SLOW_MSG, Work { sleep: 5, ..Work::default() })),
            _ => {}
        }
        if self.parts.respawn_race {
            v[4].started = vec![StartBeh::Err];
        }
        v
    }

    fn pre(&self) {
        use futures::FutureExt as _;
        let _ = Addr::<Probe<0>>::unregister().now_or_never();
        let _ = Addr::<hannibal::Broker<world::T1>>::unregister().now_or_never();
    }

    fn setup(&self, exec: &Exec) {
        let p = self.parts;
        W.with(|w| w.borrow_mut().default_role[0] = 4);
        let plain = SpawnCfg::plain(Mailbox::U);
        let mut a_actions = vec![];
        let mut outside_child: Option<Addr<P>> = None;
        if p.children {
            let c2 = spawn_probe(2, plain).detach();
            let c3 = spawn_probe(3, plain).detach();
            outside_child = Some(c3.clone());
            a_actions.push(Action::AddChild { key: store_put(Stored::Addr(c2)) });
            a_actions.push(Action::RegisterChild { key: store_put(Stored::Addr(c3)), ty: 1 });
        }
        if p.timers {
            a_actions.push(Action::Interval { timer: 1, period: 1 });
            a_actions.push(Action::DelayedExec { timer: 2, delay: 3 });
            a_actions.push(Action::DelayedSend { timer: 3, delay: 4 });
        }
        if p.long_exec {
            // a zero-delay delayed_exec whose future is under way when A fails (4 ticks of its
            // own), and one that is under way for longer than the scene lasts
            a_actions.push(Action::LongExec { timer: 4, delay: 0, work: 4 });
            a_actions.push(Action::LongExec { timer: 5, delay: 0, work: 40 });
        }
        if p.broker {
            a_actions.push(Action::Subscribe { topic: 1 });
        }
        W.with(|w| w.borrow_mut().roles[0].started_actions = a_actions);
        let cfg = SpawnCfg {
            mailbox: self.mailbox,
            strat: Strat::Default,
            timeout: if matches!(self.cause, Cause::TimeoutFail(_)) { Some((2, true)) } else { None },
        };
        let owning = spawn_probe(0, cfg);
        let a = owning.to_addr();
        if p.registry {
            let _ = block_inline(a.clone().register());
        }
        // driver
        let ops = match self.cause {
            Cause::HandlerPanic(_) => vec![Op::Send(H::Addr(0), PANIC_MSG)],
            Cause::TimeoutFail(_) => vec![Op::Send(H::Addr(0), SLOW_MSG)],
            Cause::StoppedPanic | Cause::Cancel(_) => vec![Op::Stop(H::Addr(0))],
            Cause::StartErr | Cause::StartPanic if p.on_restart => vec![Op::Sleep(2), Op::Restart(H::Addr(0))],
            _ => vec![],
        };
        exec.spawn_client(DRIVER, run_client(DRIVER, Handles::with_addr(a.clone()), ops));
        if p.bystander {
            let key = store_put(Stored::Addr(a.clone()));
            W.with(|w| {
                w.borrow_mut().roles[1].msg_actions = vec![(B_PEER1, Action::PeerCall { key, id: 720 }), (B_PEER2, Action::PeerCall { key, id: 721 })];
            });
            let b = spawn_probe(1, plain).detach();
            exec.spawn_client(
                BUSER,
                run_client(BUSER, Handles::with_addr(b), vec![Op::Call(H::Addr(0), B_PEER1), Op::Sleep(8), Op::Call(H::Addr(0), B_PEER2), Op::Call(H::Addr(0), B_PLAIN)]),
            );
        }
        if p.awaiters {
            exec.spawn_client(AWAITER, run_client(AWAITER, Handles::with_addr(a.clone()), vec![Op::Await(H::Addr(0))]));
            let mut oh = Handles::default();
            oh.own.push(Some(owning));
            let owner_ops = if p.inflight_join {
                vec![Op::JoinStart(H::Own(0)), Op::JoinPollOnce(0), Op::Sleep(9), Op::Join(H::Own(0)), Op::JoinAwait(0)]
            } else {
                vec![Op::Join(H::Own(0)), Op::Join(H::Own(0))]
            };
            exec.spawn_client(OWNER, run_client(OWNER, oh, owner_ops));
        } else {
            drop(owning.detach());
        }
        if p.late_ops {
            // pending operations (issued at once) and later ones (after the failure)
            let mut h = Handles::with_addr(a.clone());
            h.cal.push(Some(a.caller::<world::Ask>()));
            h.snd.push(Some(a.sender::<world::Note>()));
            exec.spawn_client(
                LATE,
                run_client(
                    LATE,
                    h,
                    vec![
                        Op::Call(H::Cal(0), 730),
                        Op::Sleep(8),
                        Op::Call(H::Addr(0), 731),
                        Op::Call(H::Cal(0), 732),
                        Op::Send(H::Snd(0), 733),
                        Op::Ping(H::Addr(0)),
                        Op::Stop(H::Addr(0)),
                        Op::Halt(H::Addr(0)),
                    ],
                ),
            );
        }
        if let Some(c3) = outside_child {
            exec.spawn_client(OUTSIDE, run_client(OUTSIDE, Handles::with_addr(c3), vec![Op::Sleep(9), Op::Call(H::Addr(0), 740), Op::Drop(H::Addr(0))]));
        }
        if p.registry && p.respawn_race {
            // one lookup only (so that its on-demand spawn really races with the replace below)
            exec.spawn_client(REG, async {
                use futures::FutureExt as _;
                let mut held: Option<Addr<Probe<0>>> = None;
                world::log(Ev::Begin { c: REG, i: 0 });
                world::sleep(8).await;
                world::log(Ev::End { c: REG, i: 0, r: Res::Ok });
                world::log(Ev::Begin { c: REG, i: 1 });
                let r = std::panic::AssertUnwindSafe(c08::reg_op::<0>(&mut held, c08::ROp::FromRegistry)).catch_unwind().await.unwrap_or(Res::Panicked);
                world::log(Ev::End { c: REG, i: 1, r });
            });
        } else if p.registry {
            exec.spawn_client(REG, registry_client(REG));
        }
        if p.respawn_race {
            exec.spawn_client(REPLACER, async {
                use futures::FutureExt as _;
                let mut held: Option<Addr<Probe<0>>> = None;
                world::log(Ev::Begin { c: REPLACER, i: 0 });
                world::sleep(8).await;
                world::log(Ev::End { c: REPLACER, i: 0, r: Res::Ok });
                // replace, then - once everything has settled - ask the registry about it
                let script = [(c08::ROp::ReplaceNew, 0u32), (c08::ROp::AlreadyRunning, 4), (c08::ROp::TryFromRegistry, 0)];
                for (k, (op, pause)) in script.iter().enumerate() {
                    if *pause > 0 {
                        world::sleep(*pause).await;
                    }
                    let i = k as u16 + 1;
                    world::log(Ev::Begin { c: REPLACER, i });
                    let r = std::panic::AssertUnwindSafe(c08::reg_op::<0>(&mut held, *op)).catch_unwind().await.unwrap_or(Res::Panicked);
                    world::log(Ev::End { c: REPLACER, i, r });
                }
            });
        }
        if p.broker {
            // two healthy subscribers (roles 1 and 2), and a publisher that keeps A's address
            // (so that the broker cannot simply prune A) and publishes after A has failed
            W.with(|w| {
                let mut w = w.borrow_mut();
                w.roles[1].started_actions = vec![Action::Subscribe { topic: 1 }];
                w.roles[2].started_actions = vec![Action::Subscribe { topic: 1 }];
            });
            let s1 = spawn_probe(1, plain).detach();
            let s2 = spawn_probe(2, plain).detach();
            let held_a = a.clone();
            exec.spawn_client(PUB, async move {
                use futures::FutureExt as _;
                world::log(Ev::Begin { c: PUB, i: 0 });
                world::sleep(8).await;
                world::log(Ev::End { c: PUB, i: 0, r: Res::Ok });
                world::log(Ev::Begin { c: PUB, i: 1 });
                let r = std::panic::AssertUnwindSafe(hannibal::Broker::<world::T1>::publish(world::T1(TOPIC_MSG))).catch_unwind().await;
                let r = match r {
                    Ok(Ok(())) => Res::Ok,
                    Ok(Err(e)) => Res::Err(world::errkind(&e)),
                    Err(_) => Res::Panicked,
                };
                world::log(Ev::End { c: PUB, i: 1, r });
                world::log(Ev::Begin { c: PUB, i: 2 });
                world::sleep(3).await;
                drop((s1, s2, held_a));
                world::log(Ev::End { c: PUB, i: 2, r: Res::Ok });
            });
        }
        drop(a);
    }

    fn check(&self, t: &Trace) -> Vec<Violation> {
        let an = An::new(t.log);
        let mut out = vec![];
        let ck = format!("{:?}", self.cause).split('(').next().unwrap_or("").to_string();
        let mut v = |clause: &'static str, key: String, detail: String| out.push(Violation { clause, key, detail });
        // A's task: the task whose spawn is followed by role 0's New... A is spawned after the
        // children, so find it through its started() or, if it never ran, as the task spawned
        // right after `New{a:0}`
        let a_spawn_idx = t.log.iter().position(|e| matches!(e.ev, Ev::New { a: 0, .. }));
        let a_task = a_spawn_idx.and_then(|i| {
            t.log[i..].iter().find_map(|e| match e.ev {
                Ev::X(XEv::Spawn { task, client: false, .. }) => Some(task),
                _ => None,
            })
        });
        let Some(a_task) = a_task else { return out };
        let a_end = an.end_of_task(a_task);
        let stopped_exit = an.exits.iter().any(|e| e.a == 0 && e.cb == Cb::Stopped);
        let a_started_cfg = self.roles()[0].started.clone();
        let failed = match a_end {
            Some((_, cancelled)) => cancelled || !stopped_exit || an.role_failed(0, &a_started_cfg),
            None => false,
        };
        let Some((tidx, _)) = a_end else {
            v("scene-terminates", format!("C06/A-alive-at-end/cause={ck}"), "actor A never terminated".into());
            return out;
        };
        let settled = t.res.end == crate::vexec::EndReason::Quiescent;
        // --- a started() that fails (the first one or the one of a restart) is the end of A: no
        // callback of A runs after it - its task dies there, it does not carry on
        {
            let starts: Vec<&crate::trace::CbRec> = an.enters.iter().filter(|e| e.a == 0 && e.cb == Cb::Started).collect();
            if let Some(n) = a_started_cfg.iter().position(|b| *b != world::StartBeh::Ok) {
                if let Some(fs) = starts.get(n) {
                    crate::check::oblige("failed-start-ends-the-actor");
                    // (of that actor value: the registry may spawn a fresh instance of the same
                    // type later on, which is somebody else)
                    if let Some(late) = an.enters.iter().find(|e| e.a == 0 && e.inst == fs.inst && e.idx > fs.idx) {
                        v("failed-start-ends-the-actor", format!("C06/callback-after-a-failed-start/cause={ck}"), format!("A's start #{n} failed, yet {:?} ran afterwards: the actor carried on", late.cb));
                    }
                }
            }
        }
        // --- nothing but errors reaches the others: no operation of any client - on A or on a
        // bystander - ends in a panic thrown into its caller
        for o in &an.ops {
            if o.res == Some(Res::Panicked) {
                v("failure-contained", format!("C06/panic-escaped-into-caller/client={}/cause={ck}", o.c), format!("client {} op {} panicked: A's failure was thrown into a caller instead of being reported as an error", o.c, o.i));
            }
        }
        // --- every pending and future operation on A resolves with an error
        for o in &an.ops {
            let on_a = matches!(o.c, DRIVER | AWAITER | OWNER | LATE);
            if !on_a {
                continue;
            }
            if o.end.is_none() {
                v("ops-on-failed-actor-resolve", format!("C06/hang/client={}/cause={ck}", o.c), format!("client {} op {} never resolved although A terminated", o.c, o.i));
                continue;
            }
            if o.c == LATE && o.i >= 2 && o.i <= 7 && o.begin > tidx {
                crate::check::oblige("later-ops-error");
            }
            if o.c == LATE && o.i >= 2 && o.i <= 7 && o.begin > tidx && o.ok() {
                v("later-ops-error", format!("C06/ok-after-failure/op={}/cause={ck}", o.i), format!("late operation {} on A returned {:?}", o.i, o.res));
            }
            if o.c == LATE && o.i == 0 && o.ok() && an.exit_of_msg(0, 730).is_none() {
                v("pending-call-error", format!("C06/pending-call-ok-unhandled/cause={ck}"), "a call pending at the failure returned Ok without having been handled".into());
            }
            if failed {
                if o.c == AWAITER && o.i == 0 {
                    crate::check::oblige("await-error");
                }
                if o.c == OWNER && matches!(o.res, Some(Res::Joined(_) | Res::None)) {
                    crate::check::oblige("join-none");
                }
                if o.c == AWAITER && o.i == 0 && o.ok() {
                    v("await-error", format!("C06/await-ok-after-failure/cause={ck}"), "awaiting A returned Ok although A failed".into());
                }
                if o.c == OWNER && matches!(o.res, Some(Res::Joined(_))) {
                    v("join-none", format!("C06/join-some-after-failure/cause={ck}"), "join returned A although it failed".into());
                }
            }
        }
        // --- the healthy instance somebody installed stays registered, whatever fails around it
        if self.parts.respawn_race {
            let r = |i: u16| an.op(REPLACER, i).and_then(|o| o.res);
            if let (Some(Res::Reg { .. }), Some(res)) = (r(1), r(2)) {
                crate::check::oblige("registry-not-running");
                if res != Res::OptBool(Some(true)) {
                    v("registry-keeps-healthy-instance", format!("C06/healthy-instance-evicted/already_running/cause={ck}"), format!("a healthy instance was installed with replace(); after the dust had settled already_running said {res:?}"));
                }
            }
            if let (Some(Res::Reg { .. }), Some(res)) = (r(1), r(3)) {
                if !matches!(res, Res::Reg { present: true, ident: Some(_) }) {
                    v("registry-keeps-healthy-instance", format!("C06/healthy-instance-evicted/try_from_registry/cause={ck}"), format!("a healthy instance was installed with replace(); afterwards try_from_registry returned {res:?}"));
                }
            }
        }
        // --- a broker topic A was subscribed to still serves the healthy subscribers
        if self.parts.broker {
            if let Some(o) = an.op(PUB, 1) {
                if o.begin > tidx {
                    crate::check::oblige("bystander-unharmed");
                    if o.end.is_some() && o.res != Some(Res::Ok) {
                        v("bystander-unharmed", format!("C06/publish-fails-after-subscriber-failed/cause={ck}"), format!("publishing on a topic the failed actor was subscribed to returned {:?}", o.res));
                    }
                    if settled {
                        for role in [1u8, 2] {
                            let got = an.enters.iter().filter(|e| e.a == role && e.cb == (Cb::Topic { topic: 1, id: TOPIC_MSG })).count();
                            if got != 1 {
                                v("bystander-unharmed", format!("C06/healthy-subscriber-lost-publication/cause={ck}"), format!("healthy subscriber {role} handled the publication {got} time(s) after A (also subscribed, address still held) had failed"));
                            }
                        }
                    }
                }
            }
        }
        // --- its timers stop firing; none is leaked
        if self.parts.timers || self.parts.long_exec {
            crate::check::oblige("timers-stop");
            for e in &an.enters {
                if e.a == 0 && matches!(e.cb, Cb::Tick { .. } | Cb::Exec { .. }) && e.idx > tidx {
                    v("timers-stop", format!("C06/timer-fired-after-failure/cause={ck}"), format!("{:?} fired after A had terminated", e.cb));
                }
            }
            // timer tasks = tasks spawned by A's task
            for e in t.log.iter() {
                if let Ev::X(XEv::Spawn { task, parent: Some(p), .. }) = e.ev {
                    if p == a_task && an.end_of_task(task).is_none() {
                        v("timers-stop", format!("C06/timer-task-leaked/cause={ck}"), format!("task {task} spawned by A is still alive at the end"));
                    }
                }
            }
        }
        // --- children are released and stop gracefully; the outside-held one lives on
        let a_started = an.enters.iter().any(|e| e.a == 0 && e.cb == Cb::Started);
        if self.parts.children && a_started && settled {
            crate::check::oblige("children-released");
            for role in [2u8, 3] {
                let se = an.enters.iter().find(|e| e.a == role && e.cb == Cb::Stopped).map(|e| e.idx);
                let sx = an.exits.iter().any(|e| e.a == role && e.cb == Cb::Stopped);
                match se {
                    None => v("children-released", format!("C06/child-not-stopped/cause={ck}"), format!("child {role} never stopped after A terminated")),
                    Some(se) if se < tidx => v("children-released", format!("C06/child-stopped-early/cause={ck}"), format!("child {role} stopped at {se} before A terminated at {tidx}")),
                    Some(_) if !sx => v("children-released", format!("C06/child-stop-incomplete/cause={ck}"), format!("child {role} did not finish stopped()")),
                    _ => {}
                }
            }
            if let Some(o) = an.op(OUTSIDE, 1) {
                if !o.ok() {
                    v("outside-child-lives-on", format!("C06/outside-child-unreachable/cause={ck}"), format!("call to the outside-held child returned {:?}", o.res));
                }
            }
        }
        // --- bystander keeps working and sees nothing but errors
        if self.parts.bystander {
            crate::check::oblige("bystander-unharmed");
            for i in [0u16, 2, 3] {
                match an.op(BUSER, i) {
                    Some(o) if o.end.is_some() && !o.ok() => v("bystander-unharmed", format!("C06/bystander-call-failed/op={i}/cause={ck}"), format!("call {i} to bystander B returned {:?}", o.res)),
                    Some(o) if o.end.is_none() => v("bystander-unharmed", format!("C06/bystander-hangs/op={i}/cause={ck}"), format!("call {i} to bystander B never returned")),
                    _ => {}
                }
            }
            // B's second peer call is issued after A's end: it must have failed
            let mut peer_results: Vec<(usize, bool)> = vec![];
            for (idx, e) in t.log.iter().enumerate() {
                if let Ev::Ctx { a: 1, op: CtxOp::PeerCall, ok } = e.ev {
                    peer_results.push((idx, ok));
                }
            }
            if let Some((idx, ok)) = peer_results.get(1) {
                if *ok && *idx > tidx {
                    v("bystander-sees-errors", format!("C06/peer-call-ok-after-failure/cause={ck}"), "B's call to A returned Ok after A had terminated".into());
                }
            }
            if an.enters.iter().any(|e| e.a == 1 && e.cb == Cb::Stopped && e.idx < an.op(BUSER, 3).and_then(|o| o.end).unwrap_or(0)) {
                v("bystander-unharmed", format!("C06/bystander-stopped/cause={ck}"), "bystander B stopped while its user still held it".into());
            }
        }
        // --- the registry treats it as not running
        if self.parts.registry && !self.parts.respawn_race {
            crate::check::oblige("registry-not-running");
            let r = |i: u16| an.op(REG, i).and_then(|o| o.res);
            if let Some(res) = r(1) {
                if !matches!(res, Res::Reg { present: false, .. }) {
                    v("registry-not-running", format!("C06/try_from_registry-returns-dead/cause={ck}"), format!("try_from_registry after A's termination returned {res:?}"));
                }
            }
            if let Some(res) = r(2) {
                if res != Res::OptBool(Some(false)) {
                    v("registry-not-running", format!("C06/already_running-wrong/cause={ck}"), format!("already_running after A's termination returned {res:?}, expected Some(false)"));
                }
            }
            if let Some(res) = r(3) {
                let fresh_inst = an.enters.iter().find(|e| e.a == 4 && e.cb == Cb::Started).map(|e| e.inst);
                match res {
                    Res::Reg { present: true, ident: Some(i) } if Some(i) == fresh_inst => {}
                    _ => v("registry-respawns", format!("C06/from_registry-no-fresh-instance/cause={ck}"), format!("from_registry after A's termination returned {res:?}; fresh instance started: {fresh_inst:?}")),
                }
            }
            if let Some(res) = r(4) {
                if !matches!(res, Res::Reg { present: true, ident: Some(_) }) {
                    v("registry-respawns", format!("C06/try_from_registry-after-respawn/cause={ck}"), format!("try_from_registry after the respawn returned {res:?}"));
                }
            }
            for i in 1..=4u16 {
                if an.op(REG, i).is_some_and(|o| o.end.is_none()) {
                    v("registry-not-running", format!("C06/registry-op-hangs/op={i}/cause={ck}"), format!("registry operation {i} never returned"));
                }
            }
        }
        out
    }
}

fn causes(tier: Tier) -> Vec<Cause> {
    let mut v = vec![
        Cause::StartErr,
        Cause::StartPanic,
        Cause::HandlerPanic(PANIC_MSG),
        Cause::StoppedPanic,
        Cause::TimeoutFail(SLOW_MSG),
    ];
    let maxj = if tier == Tier::Quick { 5 } else { 9 };
    for j in 1..=maxj {
        v.push(Cause::Cancel(j));
    }
    v
}

fn base_cases(tier: Tier) -> Vec<Case> {
    let mut v = vec![];
    let subs: Vec<(&str, Parts)> = vec![
        ("pending+later-ops", Parts { late_ops: true, ..Parts::default() }),
        ("awaiters+owner", Parts { awaiters: true, late_ops: true, ..Parts::default() }),
        ("awaiters+owner with a join in flight", Parts { awaiters: true, inflight_join: true, ..Parts::default() }),
        ("bystander", Parts { bystander: true, ..Parts::default() }),
        ("children", Parts { children: true, ..Parts::default() }),
        ("timers", Parts { timers: true, ..Parts::default() }),
        ("a delayed_exec under way", Parts { long_exec: true, ..Parts::default() }),
        ("registry", Parts { registry: true, ..Parts::default() }),
        ("timers+children", Parts { timers: true, children: true, ..Parts::default() }),
        ("bystander+registry", Parts { bystander: true, registry: true, ..Parts::default() }),
        ("broker", Parts { broker: true, ..Parts::default() }),
        ("registry, the respawned instance fails too while a healthy one is installed", Parts { registry: true, respawn_race: true, ..Parts::default() }),
        ("timers, the start of a restart fails", Parts { timers: true, on_restart: true, ..Parts::default() }),
        ("children+later-ops, the start of a restart fails", Parts { children: true, late_ops: true, on_restart: true, ..Parts::default() }),
    ];
    let full = Parts { bystander: true, children: true, timers: true, registry: true, awaiters: true, late_ops: true, broker: false, on_restart: false, respawn_race: false, inflight_join: false, long_exec: false };
    let mbs: &[Mailbox] = if tier == Tier::Quick { &[Mailbox::U] } else { &[Mailbox::U, Mailbox::B(1)] };
    for cause in causes(tier) {
        for &mb in mbs {
            for (name, parts) in &subs {
                if parts.on_restart && !matches!(cause, Cause::StartErr | Cause::StartPanic) {
                    continue;
                }
                // A is spawned after its children: its index among backend-spawned tasks
                let a_index = if parts.children { 2 } else { 0 };
                let big = matches!(*name, "timers+children" | "bystander+registry" | "awaiters+owner" | "broker") ;
                // (release semantics only: with debug assertions hannibal panics in the caller of
                // from_registry when the fresh instance fails to start)
                if parts.respawn_race && cfg!(debug_assertions) {
                    continue;
                }
                v.push(Case {
                    desc: format!("containment sub={name} cause={cause:?} mailbox={}", mb.name()),
                    // (a join "in flight" may or may not have got past the handle's lock on its one poll)
                    exec: ExecCfg { horizon: 30, cancel: if let Cause::Cancel(j) = cause { Some((a_index, j)) } else { None }, lock_yield_is_choice: parts.inflight_join, ..ExecCfg::default() },
                    bound: if big { Some(if tier == Tier::Quick { 4 } else { 6 }) } else { None },
                    scene: Box::new(S { parts: *parts, cause, mailbox: mb }),
                });
            }
            // pairs of faults (thorough): the behavioural fault plus a cancellation of A before its j-th poll
            if tier == Tier::Thorough && !matches!(cause, Cause::Cancel(_)) {
                for (name, parts) in &subs[..7] {
                    let a_index = if parts.children { 2 } else { 0 };
                    for j in [2u32, 3, 4, 6] {
                        v.push(Case {
                            desc: format!("containment sub={name} cause={cause:?}+Cancel({j}) mailbox={}", mb.name()),
                            exec: ExecCfg { horizon: 30, cancel: Some((a_index, j)), ..ExecCfg::default() },
                            bound: None,
                            scene: Box::new(S { parts: *parts, cause, mailbox: mb }),
                        });
                    }
                }
            }
            v.push(Case {
                desc: format!("containment full-scene cause={cause:?} mailbox={}", mb.name()),
                exec: ExecCfg { horizon: 30, cancel: if let Cause::Cancel(j) = cause { Some((2, j)) } else { None }, ..ExecCfg::default() },
                bound: Some(if tier == Tier::Quick { 3 } else { 4 }),
                scene: Box::new(S { parts: full, cause, mailbox: mb }),
            });
        }
    }
    v
}

fn cases(tier: Tier) -> Vec<Case> {
    // neutral re-configurations (see check::widen)
    // (quick tier: the small sub-scenes only)
    let small = move |d: &str| tier == Tier::Thorough || !(d.contains("full-scene") || d.contains("sub=timers+children") || d.contains("sub=bystander+registry") || d.contains("sub=awaiters+owner"));
    let no_timeout = move |d: &str| !d.contains("Timeout") && small(d);
    let mut v = crate::check::widen(&|| base_cases(tier), &no_timeout, &small, Some(&no_timeout));
    // a child that crashes is its own failure: its siblings under the same parent keep getting
    // the parent's broadcasts, every one of them (the tree scenes of C16, reporting under C06)
    {
        use crate::props::{c02::Cause, c16::{Node, Reg, S}};
        let root = Node { role: 0, parent: None, reg: Reg::Add, outside: false, outside_stops: false };
        let crashing = |role| Node { role, parent: Some(0), reg: Reg::Ty(1), outside: true, outside_stops: true };
        let healthy = |role| Node { role, parent: Some(0), reg: Reg::Ty(1), outside: false, outside_stops: false };
        for tree in [vec![root, crashing(1), healthy(2)], vec![root, healthy(1), crashing(2), healthy(3)], vec![root, crashing(1), crashing(2), healthy(3)]] {
            for cause in [Cause::StopClient, Cause::LastDrop] {
                for mb in [Mailbox::U, Mailbox::B(1)] {
                    v.push(Case {
                        desc: format!("containment [a child crashes, its siblings keep getting the broadcasts] children={} cause={cause:?} mailbox={}", tree.len() - 1, mb.name()),
                        exec: ExecCfg { horizon: 30, ..ExecCfg::default() },
                        bound: Some(if tier == Tier::Quick { 3 } else { 6 }),
                        scene: Box::new(S { nodes: tree.clone(), cause, bcasts: vec![(1, 601), (1, 603)], mailbox: mb, pid: "C06", restart_root: false, slow_stop: None, child_timers: false, late_registration: false, child_restarts: false }),
                    });
                }
            }
        }
    }
    v
}

pub fn property() -> Property {
    Property {
        id: "C06",
        cases,
        clauses: &["later-ops-error", "await-error", "join-none", "timers-stop", "children-released", "bystander-unharmed", "registry-not-running"],
        full_rerun_check: true,
        assumptions: &[
            "single faults in the quick tier; the thorough tier adds pairs (each behavioural fault combined with a cancellation of the actor before its 2nd/3rd/4th/6th poll); cancellation is modelled as the executor dropping the actor task's future instead of performing its j-th poll",
            "release semantics: the debug_assert!(ping) trip-wire in from_registry is compiled out",
            "sub-scenes with one part are explored with all schedules, combined and full scenes with a deviation bound",
        ],
    }
}
