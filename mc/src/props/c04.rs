//! C04: stop is a drain barrier and termination is announced after stopped().

use crate::{
    check::{Case, Property, Tier, Trace, Violation},
    ops::{Op, H},
    progscene::{ClientSpec, HInit, ProgScene, FULL},
    props::c01::{msg_id, seqs, submitted_id, to_op, L},
    scenes::{Mailbox, SpawnCfg},
    trace::An,
    vexec::ExecCfg,
    world::{Action, Cb, CtxOp, Ev, Res, RoleCfg, Work},
};

#[derive(Clone, Copy, Debug, PartialEq, Eq)]
pub enum StopVia {
    AddrStop,
    AddrHalt,
    WeakTryStop,
    WeakTryHalt,
    CtxStop,
    Consume,
}

#[derive(Clone, Copy, Debug, PartialEq, Eq)]
pub enum Awaiter {
    None,
    AwaitEarly,
    AwaitCloneLate,
    Join,
    AwaitAndLateClone,
}

pub struct X {
    pub failing: bool,
}

fn is_stop_request(op: &Op) -> bool {
    matches!(op, Op::Stop(_) | Op::Halt(_) | Op::Consume(_) | Op::ConsumeSync(_) | Op::Cmd(_, _, Action::Stop))
}

fn is_awaiter(op: &Op) -> bool {
    matches!(op, Op::Await(_) | Op::AwaitRef(_) | Op::Halt(_) | Op::Join(_) | Op::JoinAwait(_) | Op::Consume(_))
}

pub fn oracle(s: &ProgScene<X>, t: &Trace) -> Vec<Violation> {
    let an = An::new(t.log);
    let mut out = vec![];
    let mbn = s.spawn.mailbox.name();
    let op_at = |c: u8, i: u16| s.clients.get(c as usize).and_then(|cs| cs.ops.get(i as usize));
    // halt / await / join / consume report the end as a value (Ok, an error, None) - never as a
    // panic in the task that asked
    for o in &an.ops {
        if o.res == Some(Res::Panicked) && op_at(o.c, o.i).is_some_and(|op| matches!(op, Op::Halt(_) | Op::Await(_) | Op::AwaitRef(_) | Op::Join(_) | Op::Consume(_))) {
            out.push(Violation {
                clause: "verdict-matches-termination",
                key: format!("C04/verdict-is-a-panic/mailbox={mbn}"),
                detail: format!("client {} op {} {:?} panicked instead of reporting how the actor ended", o.c, o.i, op_at(o.c, o.i)),
            });
        }
    }
    // first stop request issued, first accepted stop request returned
    // a stop request is issued when the client operation that carries it begins - except for
    // Context::stop, which is issued at the moment the handler calls it (the command message
    // that asks for it is an ordinary message until then)
    let mut issued: Vec<usize> = an
        .ops
        .iter()
        .filter(|o| op_at(o.c, o.i).is_some_and(|op| is_stop_request(op) && !matches!(op, Op::Cmd(..))))
        .map(|o| o.begin)
        .collect();
    for (idx, e) in t.log.iter().enumerate() {
        if let Ev::Ctx { op: CtxOp::Stop, .. } = e.ev {
            issued.push(idx);
        }
    }
    let first_stop_begin = issued.iter().min().copied();
    let mut accepted: Vec<usize> = vec![];
    for o in &an.ops {
        match op_at(o.c, o.i) {
            Some(Op::Stop(_) | Op::Halt(_) | Op::Consume(_) | Op::ConsumeSync(_)) if o.ok() => accepted.extend(o.end),
            _ => {}
        }
    }
    for (idx, e) in t.log.iter().enumerate() {
        if let Ev::Ctx { op: CtxOp::Stop, ok: true, .. } = e.ev {
            accepted.push(idx);
        }
    }
    let first_accepted = accepted.iter().min().copied();
    let stopped_exit = an.exits.iter().find(|e| e.a == 0 && e.cb == Cb::Stopped).map(|e| e.idx);
    let term = an.task_end(0);
    // "absent failures": whether the actor failed is read off the trace (in the failing
    // variants a stop may still win the race against the panicking message)
    let failing = term.is_some() && (stopped_exit.is_none() || an.role_failed(0, &s.roles[0].started));
    let _ = s.extra.failing;

    // (an attached stream that ends is an end of its own: it does not drain the mailbox)
    let stream_ends = matches!(s.attach, crate::progscene::Attach::Stream { close: true, .. });
    if !failing {
        for (c, cs) in s.clients.iter().enumerate() {
            for (i, op) in cs.ops.iter().enumerate() {
                let Some(id) = submitted_id(op) else { continue };
                if matches!(op, Op::Cmd(..)) {
                    continue;
                }
                let Some(o) = an.op(c as u8, i as u16) else { continue };
                let handled = an.exit_of_msg(0, id).is_some();
                let entered = !an.enter_of_msg(0, id).is_empty();
                // a call through an Addr is in the mailbox after the first poll of its future
                // (the non-waiting path); a caller that then gives up has still submitted it
                if let (Op::CallAbandon(H::Addr(_), _), Some(Res::Abandoned), Some(end), Some(fs)) = (op, o.res, o.end, first_stop_begin) {
                    if end < fs && !stream_ends {
                        crate::check::oblige("drain-before-stop");
                        if !handled {
                            out.push(Violation {
                                clause: "drain-before-stop",
                                key: format!("C04/pre-stop-abandoned-call-lost/mailbox={mbn}"),
                                detail: format!("call {id} was submitted (its caller gave up waiting for the answer afterwards) before any stop request was issued, but it was never handled"),
                            });
                        }
                    }
                    continue;
                }
                let is_call = matches!(op, Op::Call(..));
                // (a) submitted (completed, accepted) before any stop request was issued
                if let (Some(end), Some(fs), false) = (o.end, first_stop_begin, stream_ends) {
                    let accepted_msg = if is_call { true } else { o.ok() };
                    if end < fs && accepted_msg {
                        crate::check::oblige("drain-before-stop");
                    }
                    if end < fs && accepted_msg && !(handled && o.ok()) {
                        out.push(Violation {
                            clause: "drain-before-stop",
                            key: format!("C04/pre-stop-message-lost/mailbox={mbn}"),
                            detail: format!("message {id} was submitted before any stop request was issued but handled={handled} result={:?}", o.res),
                        });
                    }
                }
                // calls in flight when the stop was issued: Ok iff handled
                if is_call && o.end.is_some() && o.ok() != handled {
                    out.push(Violation {
                        clause: "call-ok-iff-handled",
                        key: format!("C04/call-result-mismatch/mailbox={mbn}"),
                        detail: format!("call {id}: result {:?} but handled={handled}", o.res),
                    });
                }
                // (b) submitted after an accepted stop request returned
                if let Some(fa) = first_accepted {
                    if o.begin > fa {
                        crate::check::oblige("barrier-after-stop");
                        if entered {
                            out.push(Violation {
                                clause: "barrier-after-stop",
                                key: format!("C04/post-stop-message-handled/mailbox={mbn}"),
                                detail: format!("message {id} was submitted after an accepted stop request had returned, yet it was handled"),
                            });
                        }
                        if is_call && o.end.is_some() && o.ok() {
                            out.push(Violation {
                                clause: "barrier-after-stop",
                                key: format!("C04/post-stop-call-ok/mailbox={mbn}"),
                                detail: format!("call {id} submitted after an accepted stop returned Ok"),
                            });
                        }
                    }
                }
            }
        }
        // (c) graceful termination
        if first_accepted.is_some() && (stopped_exit.is_none() || term.is_none()) {
            out.push(Violation {
                clause: "terminates-gracefully",
                key: format!("C04/no-graceful-termination/mailbox={mbn}"),
                detail: format!("a stop was accepted but stopped-exit={stopped_exit:?} task-end={term:?}"),
            });
        }
    }
    // (d) awaiters resolve only after stopped() has finished, with the right verdict
    for o in &an.ops {
        let Some(op) = op_at(o.c, o.i) else { continue };
        if !is_awaiter(op) {
            continue;
        }
        let name = format!("{op:?}").split('(').next().unwrap_or("").to_string();
        match (o.end, term) {
            (None, Some(_)) => out.push(Violation {
                clause: "awaiter-resolves",
                key: format!("C04/awaiter-hangs/{name}/mailbox={mbn}"),
                detail: format!("client {} op {} {op:?} did not resolve although the actor terminated", o.c, o.i),
            }),
            (Some(end), _) => {
                // a halt whose stop was rejected (actor already gone) returns early with an error;
                // consume() joins all the same - it is the only way to the actor's final state
                let rejected = matches!(op, Op::Halt(_)) && !o.ok();
                if !failing && !rejected {
                    crate::check::oblige("announce-after-stopped");
                    match stopped_exit {
                        Some(se) if end > se => {}
                        _ => out.push(Violation {
                            clause: "announce-after-stopped",
                            key: format!("C04/resolved-before-stopped-finished/{name}/mailbox={mbn}"),
                            detail: format!("client {} op {} {op:?} resolved at {end} but stopped() finished at {stopped_exit:?}", o.c, o.i),
                        }),
                    }
                }
                let want_ok = !failing;
                let is_second_join = false;
                if !rejected {
                    crate::check::oblige(if failing { "verdict-on-failure" } else { "verdict-on-graceful" });
                }
                if !rejected && !is_second_join && o.ok() != want_ok {
                    out.push(Violation {
                        clause: "verdict-matches-termination",
                        key: format!("C04/wrong-verdict/{name}/failing={failing}/mailbox={mbn}"),
                        detail: format!("client {} op {} {op:?} resolved with {:?}; graceful={}", o.c, o.i, o.res, !failing),
                    });
                }
            }
            _ => {}
        }
    }
    out
}

#[allow(clippy::too_many_arguments)]
pub fn make_case(subs: &[Vec<L>], stops: &[StopVia], aw: Awaiter, mailbox: Mailbox, failing: bool, bound: Option<u32>) -> Case {
    let mut clients = vec![];
    for (c, p) in subs.iter().enumerate() {
        let ops: Vec<Op> = p.iter().enumerate().map(|(i, l)| to_op(*l, msg_id(c, i))).collect();
        clients.push(ClientSpec { init: FULL.to_vec(), ops });
    }
    let mut own_taken = false;
    for sv in stops {
        let (init, ops) = match sv {
            StopVia::AddrStop => (vec![HInit::Addr], vec![Op::Stop(H::Addr(0))]),
            StopVia::AddrHalt => (vec![HInit::Addr], vec![Op::Halt(H::Addr(0))]),
            StopVia::WeakTryStop => (vec![HInit::Addr, HInit::WAddr], vec![Op::Stop(H::WAddr(0))]),
            StopVia::WeakTryHalt => (vec![HInit::Addr, HInit::WAddr], vec![Op::Halt(H::WAddr(0))]),
            StopVia::CtxStop => (vec![HInit::Addr], vec![Op::Cmd(H::Addr(0), 900, Action::Stop)]),
            StopVia::Consume => {
                own_taken = true;
                (vec![HInit::Own], vec![Op::Consume(H::Own(0))])
            }
        };
        clients.push(ClientSpec { init, ops });
    }
    match aw {
        Awaiter::None => {}
        Awaiter::AwaitEarly => clients.push(ClientSpec { init: vec![HInit::Addr], ops: vec![Op::Await(H::Addr(0))] }),
        Awaiter::AwaitCloneLate => clients.push(ClientSpec {
            init: vec![HInit::Addr],
            ops: vec![Op::Sleep(3), Op::Clone(H::Addr(0)), Op::Await(H::Addr(1))],
        }),
        Awaiter::AwaitAndLateClone => clients.push(ClientSpec {
            init: vec![HInit::Addr, HInit::Addr],
            ops: vec![Op::Await(H::Addr(0)), Op::Clone(H::Addr(1)), Op::Await(H::Addr(2))],
        }),
        Awaiter::Join => {
            if !own_taken {
                clients.push(ClientSpec { init: vec![HInit::Own], ops: vec![Op::Join(H::Own(0))] });
            }
        }
    }
    let mut role = RoleCfg { stopped_yields: 1, ..RoleCfg::default() };
    let tight = TIGHT.with(|t| t.get());
    let mut spawn = SpawnCfg::plain(mailbox);
    if let Some(fail) = tight {
        // a handler timeout of 2 ticks is configured and stopped() takes 5: the limit is about
        // handlers, the hook still runs to its end before anything is announced
        spawn.timeout = Some((2, fail));
        role.stopped_sleep = 5;
    }
    let slow_start = SLOW_START.with(|t| t.get());
    if slow_start {
        // started() takes two ticks: every request of the scene arrives while the actor is
        // still starting
        role.started_yields = 1;
        role.started_sleep = 2;
    }
    let by_timeout = failing && FAIL_BY_TIMEOUT.with(|t| t.get());
    let by_stopped_panic = failing && FAIL_IN_STOPPED.with(|t| t.get());
    if by_timeout {
        // the first submitted message outlasts a fatal handler timeout (2 ticks, needs 5)
        spawn.timeout = Some((2, true));
        role.work.push((msg_id(0, 0), Work { sleep: 5, ..Work::default() }));
    } else if by_stopped_panic {
        // everything goes well until the very end: the stopped() hook panics
        role.stopped_panic = true;
    } else if failing {
        // the first submitted message makes the handler panic
        role.work.push((msg_id(0, 0), Work { panic: true, ..Work::default() }));
    }
    let desc = format!(
        "stop{}{} mailbox={} failing={} subs={} stops={:?} awaiter={:?}",
        crate::progscene::variant_tag(),
        match (tight, slow_start) {
            _ if by_timeout => " [the failure is a fatal handler timeout]".to_string(),
            _ if by_stopped_panic => " [the failure is a panic in stopped()]".to_string(),
            (Some(fail), _) => format!(" [timeout 2 fail={fail}, stopped() takes 5]"),
            (None, true) => " [started() takes 2]".to_string(),
            _ => String::new(),
        },
        mailbox.name(),
        failing,
        subs.iter().map(|p| p.iter().map(|l| format!("{l:?}")).collect::<Vec<_>>().join(",")).collect::<Vec<_>>().join(" | "),
        stops,
        aw
    );
    Case {
        desc,
        // (handlers are instant, so the timeout's select! never has both arms ready)
        exec: if tight.is_some() || by_timeout { ExecCfg { horizon: 20, select_choice: false, ..ExecCfg::default() } } else if slow_start { ExecCfg { horizon: 20, ..ExecCfg::default() } } else { ExecCfg::default() },
        bound,
        scene: Box::new(ProgScene { variant: crate::progscene::current_variant(), attach: crate::progscene::attach_for(mailbox), spawn, roles: vec![role], clients, extra: X { failing }, oracle }),
    }
}

thread_local! {
    /// the failing variants fail by a fatal handler timeout instead of a panic
    static FAIL_BY_TIMEOUT: std::cell::Cell<bool> = const { std::cell::Cell::new(false) };
    static FAIL_IN_STOPPED: std::cell::Cell<bool> = const { std::cell::Cell::new(false) };
}

thread_local! {
    /// started() takes virtual time (see make_case)
    static SLOW_START: std::cell::Cell<bool> = const { std::cell::Cell::new(false) };
}

thread_local! {
    /// Some(fail_on_timeout): a tight handler timeout and a slow stopped() hook (see make_case)
    static TIGHT: std::cell::Cell<Option<bool>> = const { std::cell::Cell::new(None) };
}

fn with_tight<T>(fail: bool, f: impl FnOnce() -> T) -> T {
    TIGHT.with(|t| t.set(Some(fail)));
    let r = f();
    TIGHT.with(|t| t.set(None));
    r
}

fn plain_cases(tier: Tier) -> Vec<Case> {
    let mut v = vec![];
    let subs_alpha = [L::SendAddr, L::CallAddr, L::CallCal, L::SendSnd];
    let stops = [StopVia::AddrStop, StopVia::AddrHalt, StopVia::WeakTryStop, StopVia::WeakTryHalt, StopVia::CtxStop, StopVia::Consume];
    let awaiters = [Awaiter::None, Awaiter::AwaitEarly, Awaiter::AwaitCloneLate, Awaiter::Join, Awaiter::AwaitAndLateClone];
    let mbs = [Mailbox::U, Mailbox::B(0), Mailbox::B(1)];
    for &mb in &mbs {
        for &sv in &stops {
            for &aw in &awaiters {
                for n in 1..=2 {
                    for p in seqs(&subs_alpha, n) {
                        v.push(make_case(&[p], &[sv], aw, mb, false, None));
                    }
                }
            }
        }
        // callers that give up after submitting: the message is in the mailbox all the same
        for &sv in &stops {
            for p in [vec![L::CallAbandon], vec![L::SendAddr, L::CallAbandon], vec![L::CallAbandon, L::CallAddr], vec![L::CallAbandon, L::CallAbandon]] {
                v.push(make_case(&[p], &[sv], Awaiter::AwaitEarly, mb, false, None));
            }
        }
        // two stop requests racing with one or two submitters
        for (i, &s1) in stops.iter().enumerate() {
            for &s2 in &stops[i..] {
                if s1 == StopVia::Consume && s2 == StopVia::Consume {
                    continue;
                }
                for p in seqs(&subs_alpha, 1) {
                    v.push(make_case(&[p], &[s1, s2], Awaiter::AwaitEarly, mb, false, None));
                }
            }
        }
        // two submitters, one stop
        for &sv in &stops {
            for a in seqs(&subs_alpha, 1) {
                for b in seqs(&subs_alpha, 1) {
                    v.push(make_case(&[a.clone(), b], &[sv], Awaiter::AwaitEarly, mb, false, None));
                }
            }
        }
        // failing variants: the handler of the first message panics - or outlasts a fatal timeout
        for &sv in &[StopVia::AddrStop, StopVia::AddrHalt, StopVia::WeakTryHalt] {
            for &aw in &awaiters {
                for p in seqs(&subs_alpha, 1) {
                    FAIL_BY_TIMEOUT.with(|t| t.set(true));
                    let c = make_case(&[p.clone()], &[sv], aw, mb, true, None);
                    FAIL_BY_TIMEOUT.with(|t| t.set(false));
                    v.push(c);
                    FAIL_IN_STOPPED.with(|t| t.set(true));
                    let c = make_case(&[p], &[sv], aw, mb, true, None);
                    FAIL_IN_STOPPED.with(|t| t.set(false));
                    v.push(c);
                }
            }
        }
        for &sv in &[StopVia::AddrStop, StopVia::AddrHalt, StopVia::WeakTryHalt] {
            for &aw in &awaiters {
                for p in seqs(&subs_alpha, 1) {
                    v.push(make_case(&[p], &[sv], aw, mb, true, None));
                }
            }
        }
    }
    if tier == Tier::Thorough {
        for &mb in &mbs {
            for (i, &s1) in stops.iter().enumerate() {
                for &s2 in &stops[i..] {
                    if s1 == StopVia::Consume && s2 == StopVia::Consume {
                        continue;
                    }
                    for a in seqs(&subs_alpha, 2) {
                        for b in seqs(&[L::SendAddr, L::CallAddr], 1) {
                            v.push(make_case(&[a.clone(), b], &[s1, s2], Awaiter::AwaitAndLateClone, mb, false, Some(4)));
                        }
                    }
                }
            }
        }
    }
    v
}

/// The family on the plain event loop, plus (every third case in the quick tier, all of them in
/// the thorough tier) the same programs on the stream loop: the actor is attached to a stream
/// that stays open and never yields, so `create_loop_on_stream` serves the mailbox.
fn cases(tier: Tier) -> Vec<Case> {
    let mut v = plain_cases(tier);
    // an accepted stop terminates the actor also when it is attached to a stream that is ready
    // every time the loop looks (set-valued oracle, see props/c13.rs)
    v.extend(crate::props::c13::fair_cases("C04"));
    let s = crate::progscene::with_stream_variant(|| plain_cases(tier));
    v.extend(s.into_iter().enumerate().filter(|(i, c)| (tier == Tier::Thorough || i % 3 == 0)).map(|(_, mut c)| {
        // the attached stream is never ready, so the loop's select! tie-break cannot change anything:
        // it is not explored as a choice here (C13 explores it, with streams that do yield)
        c.exec.select_choice = false;
        c
    }));
    // ... and attached to a stream that *ends* at once, without an item (every fifth case;
    // thorough: every second): the end of the stream ends the actor too - it does not drain the
    // mailbox, so "everything accepted before the stop is handled" is not required there, but
    // the barrier is: nothing submitted after an accepted stop is handled, whichever end wins
    let step = if tier == Tier::Thorough { 2 } else { 5 };
    let sc = crate::progscene::with_stream_variant_closing(vec![], || plain_cases(tier));
    v.extend(sc.into_iter().enumerate().filter(|(i, c)| i % step == 2 % step && !c.desc.contains("failing=true")).map(|(_, mut c)| {
        c.desc = c.desc.replacen("[stream loop]", "[stream loop, the stream ends at once]", 1);
        c.bound = c.bound.or(Some(if tier == Tier::Thorough { 5 } else { 3 }));
        c
    }));
    // ... and with a handler timeout shorter than the stopped() hook (every sixth case; thorough:
    // every second), carrying on or failing on a timeout - no handler ever times out
    for fail in [false, true] {
        let step = if tier == Tier::Thorough { 2 } else { 6 };
        let off = usize::from(fail);
        v.extend(with_tight(fail, || plain_cases(tier)).into_iter().enumerate().filter(|(i, _)| i % step == off).map(|(_, c)| c));
    }
    // ... and with a started() hook that takes time, so that everything arrives while the actor
    // is still starting (every sixth case; thorough: every second)
    {
        let step = if tier == Tier::Thorough { 2 } else { 6 };
        SLOW_START.with(|t| t.set(true));
        let extra = plain_cases(tier);
        SLOW_START.with(|t| t.set(false));
        v.extend(extra.into_iter().enumerate().filter(|(i, _)| i % step == 3 % step).map(|(_, c)| c));
    }
    let nv = crate::progscene::Variant { generous_timeout: true, recreate: true, builder_order: 0, owner_dropped: false };
    let n = crate::progscene::with_variant(nv, || plain_cases(tier));
    let step = if tier == Tier::Thorough { 2 } else { 4 };
    v.extend(n.into_iter().enumerate().filter(|(i, _)| i % step == 1).map(|(_, mut c)| {
        // no handler takes anywhere near 50 ticks, so the timeout's select! never has both arms ready
        c.exec.select_choice = false;
        c
    }));
    v
}

pub fn property() -> Property {
    Property {
        id: "C04",
        cases,
        clauses: &["mailbox-gets-its-turn", "drain-before-stop", "barrier-after-stop", "announce-after-stopped", "verdict-on-failure", "verdict-on-graceful"],
        full_rerun_check: true,
        assumptions: &["a stop request counts as issued at the begin of the client operation that carries it, and as accepted when that operation (or Context::stop inside the handler) returned Ok"],
    }
}
