//! C03: lifecycle callbacks follow the started / handle* / [finished] stopped protocol.

use crate::{
    check::{Case, Property, Tier, Trace, Violation},
    ops::{Op, H},
    progscene::{Attach, ClientSpec, HInit, ProgScene},
    props::c01::msg_id,
    scenes::{Mailbox, SpawnCfg, Strat, StreamVia},
    trace::An,
    vexec::ExecCfg,
    world::{Action, Cb, Ev, RoleCfg, StartBeh},
};

#[derive(Clone, Copy, Debug, PartialEq, Eq)]
pub enum A {
    Send,
    Call,
    StopAddr,
    StopWeak,
    CtxStop,
    Restart,
    DropAddr,
    Feed,
    Close,
    Consume,
    /// stop and await the address: the observer for whom the actor has terminated when this returns
    Halt,
}

pub struct X {
    stream: bool,
    /// the stream's item type is one for which the actor relies on the provided `finished`:
    /// nothing is logged for it, stopped() comes straight after the last handler
    default_finished: bool,
    /// which start fails (0 = the first, 1 = the start of the first restart)
    start_err: Option<usize>,
    /// the handler of this message is abandoned by a carry-on limit (it logs no exit)
    abandoned: Option<u32>,
}

fn to_op(a: A, id: u32) -> Op {
    match a {
        A::Send => Op::Send(H::Addr(0), id),
        A::Call => Op::Call(H::Addr(0), id),
        A::StopAddr => Op::Stop(H::Addr(0)),
        A::StopWeak => Op::Stop(H::WAddr(0)),
        A::CtxStop => Op::Cmd(H::Addr(0), id, Action::Stop),
        A::Restart => Op::Restart(H::Addr(0)),
        A::DropAddr => Op::Drop(H::Addr(0)),
        A::Feed => Op::Feed(id),
        A::Close => Op::CloseStream,
        A::Consume => Op::Consume(H::Own(0)),
        A::Halt => Op::Halt(H::Addr(0)),
    }
}

fn oracle(s: &ProgScene<X>, t: &Trace) -> Vec<Violation> {
    let an = An::new(t.log);
    let mut out = vec![];
    let kind = if s.extra.stream { "stream" } else { "plain" };
    let term = an.task_end(0);
    // the callback word of role 0
    #[derive(Clone, Copy, Debug, PartialEq)]
    enum W {
        In(Cb, u16),
        Out(Cb, u16),
    }
    let word: Vec<W> = t
        .log
        .iter()
        .filter_map(|e| match e.ev {
            Ev::Enter { a: 0, cb, inc, .. } => Some(W::In(cb, inc)),
            Ev::Exit { a: 0, cb, inc, .. } => Some(W::Out(cb, inc)),
            _ => None,
        })
        .collect();
    let mut v = |clause: &'static str, key: String, detail: String| out.push(Violation { clause, key, detail });
    // state machine per incarnation
    #[derive(PartialEq, Debug, Clone, Copy)]
    enum St {
        Fresh,
        Starting,
        Running,
        InHandler,
        Finishing,
        Finished,
        Stopping,
        Stopped,
        StartFailed,
    }
    let mut st = St::Fresh;
    let mut cur_inc: u16 = 0;
    let mut started_per_inc: Vec<u16> = vec![];
    let mut stopped_per_inc: Vec<u16> = vec![];
    let mut finished_count = 0;
    let mut open_handler: Option<Cb> = None;
    for w in &word {
        match *w {
            W::In(Cb::Started, inc) => {
                crate::check::oblige("protocol");
                if !(st == St::Fresh || st == St::Stopped) {
                    v("protocol", format!("C03/{kind}/started-out-of-place"), format!("started() entered in state {st:?}"));
                }
                if started_per_inc.contains(&inc) {
                    v("started-once", format!("C03/{kind}/started-twice"), format!("incarnation {inc} started twice"));
                }
                started_per_inc.push(inc);
                cur_inc = inc;
                st = St::Starting;
            }
            W::Out(Cb::Started, _) => {
                // Exit is logged for Ok and for Err starts; which one it was is configured
                let n = started_per_inc.len() - 1;
                let beh = s.roles[0].started.get(n).copied().unwrap_or(StartBeh::Ok);
                st = if beh == StartBeh::Ok { St::Running } else { St::StartFailed };
            }
            W::In(Cb::Stopped, inc) => {
                if st == St::InHandler && open_handler == s.extra.abandoned.map(Cb::Msg) && open_handler.is_some() {
                    st = St::Running;
                }
                let ok_state = if s.extra.stream && !s.extra.default_finished { st == St::Finished } else { st == St::Running };
                if !ok_state {
                    v("protocol", format!("C03/{kind}/stopped-out-of-place"), format!("stopped() entered in state {st:?}"));
                }
                if stopped_per_inc.contains(&inc) {
                    v("stopped-once", format!("C03/{kind}/stopped-twice"), format!("incarnation {inc} stopped twice"));
                }
                stopped_per_inc.push(inc);
                st = St::Stopping;
            }
            W::Out(Cb::Stopped, _) => st = St::Stopped,
            W::In(Cb::Finished, _) => {
                if !s.extra.stream || st != St::Running {
                    v("protocol", format!("C03/{kind}/finished-out-of-place"), format!("finished() entered in state {st:?}"));
                }
                finished_count += 1;
                st = St::Finishing;
            }
            W::Out(Cb::Finished, _) => st = St::Finished,
            W::In(cb, inc) => {
                // (the abandoned handler is over when the next callback begins)
                if st == St::InHandler && open_handler == s.extra.abandoned.map(Cb::Msg) && open_handler.is_some() {
                    st = St::Running;
                }
                open_handler = Some(cb);
                if st != St::Running {
                    let key = match st {
                        St::Fresh | St::Starting => "handler-before-started-completed",
                        St::StartFailed => "handler-after-failed-start",
                        St::InHandler => "handlers-overlap",
                        _ => "handler-after-stopped",
                    };
                    v("protocol", format!("C03/{kind}/{key}"), format!("{cb:?} entered in state {st:?}"));
                }
                if inc != cur_inc {
                    v("protocol", format!("C03/{kind}/handler-in-wrong-incarnation"), format!("{cb:?} ran in incarnation {inc}, current {cur_inc}"));
                }
                st = St::InHandler;
            }
            W::Out(_, _) => st = St::Running,
        }
    }
    // one incarnation per spawn, one more per *requested* restart: nothing else starts one
    {
        let requested = an.ops.iter().filter(|o| o.ok() && matches!(s.clients.get(o.c as usize).and_then(|cs| cs.ops.get(o.i as usize)), Some(Op::Restart(_)))).count();
        if started_per_inc.len() > 1 + requested {
            v("protocol", format!("C03/{kind}/incarnation-nobody-asked-for"), format!("started() ran {} times although only {requested} restart(s) had been requested", started_per_inc.len()));
        }
    }
    // "... and nothing afterwards", as seen from outside: once an observer has been told that the
    // actor has terminated (its stop-and-await has returned) no callback of that actor is running
    // or starts to run
    for o in &an.ops {
        let (Some(Op::Halt(_) | Op::Await(_)), Some(end)) = (s.clients.get(o.c as usize).and_then(|cs| cs.ops.get(o.i as usize)), o.end) else { continue };
        crate::check::oblige("nothing-after-the-end");
        if let Some(late) = t.log.iter().enumerate().skip(end + 1).find_map(|(_, e)| match e.ev {
            Ev::Enter { a: 0, cb, .. } | Ev::After { a: 0, cb, .. } | Ev::Exit { a: 0, cb, .. } => Some(cb),
            _ => None,
        }) {
            v("nothing-after-the-end", format!("C03/{kind}/callback-after-the-address-resolved"), format!("client {} was told the actor had terminated ({:?}) while its {late:?} callback was still to run or to finish", o.c, o.res));
        }
    }
    // graceful end: the task ended and nothing failed -> the word ends with [finished] stopped
    if let Some((_, cancelled)) = term {
        let failed_start_reached = s.extra.start_err.is_some_and(|n| started_per_inc.len() > n);
        if s.extra.start_err == Some(0) {
            crate::check::oblige("start-failure");
            if word.iter().any(|w| matches!(w, W::In(cb, _) if !matches!(cb, Cb::Started))) {
                v("start-failure", format!("C03/{kind}/callback-after-failed-start"), "a callback ran although started() returned an error".into());
            }
            // terminates as failed: awaiting yields an error
            for o in &an.ops {
                if let Some(Op::Await(_)) = s.clients.get(o.c as usize).and_then(|cs| cs.ops.get(o.i as usize)) {
                    if o.ok() {
                        v("start-failure", format!("C03/{kind}/await-ok-after-failed-start"), "address resolved Ok although started() failed".into());
                    }
                }
            }
        } else if failed_start_reached {
            crate::check::oblige("start-failure-on-restart");
            // a later start failed: nothing may run after it (the automaton above flags handlers
            // and stopped() in the StartFailed state), and the actor ends as failed
            if st != St::StartFailed {
                v("start-failure", format!("C03/{kind}/failed-restart-not-final"), format!("start #{:?} failed but the actor went on to state {st:?}", s.extra.start_err));
            }
            for o in &an.ops {
                if let Some(Op::Await(_)) = s.clients.get(o.c as usize).and_then(|cs| cs.ops.get(o.i as usize)) {
                    if o.ok() {
                        v("start-failure", format!("C03/{kind}/await-ok-after-failed-restart"), "address resolved Ok although started() failed on restart".into());
                    }
                }
            }
        } else if s.extra.stream
            && st == St::Running
            && an.ops.iter().any(|o| o.ok() && matches!(s.clients.get(o.c as usize).and_then(|cs| cs.ops.get(o.i as usize)), Some(Op::Restart(_))))
        {
            // the stream loop gave up on an accepted restart request: an abnormal end, in the
            // middle of nothing (the automaton above has seen every callback that did run)
        } else if !cancelled {
            crate::check::oblige("graceful-end");
            if st != St::Stopped {
                v("graceful-end", format!("C03/{kind}/ended-without-stopped"), format!("the actor task ended in state {st:?}"));
            }
            if s.extra.stream && finished_count != usize::from(!s.extra.default_finished) {
                v("graceful-end", format!("C03/{kind}/finished-count"), format!("finished() was called {finished_count} times"));
            }
        }
    } else {
        // every program of the family ends with all its handles dropped: the end must come
        v("graceful-end", format!("C03/{kind}/no-end-although-every-handle-is-gone"), "every client has finished and dropped its handles, but the actor never reached stopped()".into());
    }
    out
}

thread_local! {
    /// the first message of client 0 takes 5 ticks (with a carry-on limit of 2 it is abandoned)
    static SLOW_FIRST: std::cell::Cell<bool> = const { std::cell::Cell::new(false) };
    /// context operations performed from inside the lifecycle hooks (see make_case_slow)
    static HOOK_ACTS: std::cell::Cell<u8> = const { std::cell::Cell::new(0) };
}

fn with_hook_acts<T>(mode: u8, f: impl FnOnce() -> T) -> T {
    HOOK_ACTS.with(|h| h.set(mode));
    let r = f();
    HOOK_ACTS.with(|h| h.set(0));
    r
}

#[allow(clippy::too_many_arguments)]
fn make_case(progs: &[Vec<A>], spawn: SpawnCfg, attach: Attach, start_err: Option<usize>, tick: bool, owner: bool) -> Case {
    make_case_slow(progs, spawn, attach, start_err, tick, owner, 0)
}

/// `slow_start`: started() takes this many ticks (with a handler timeout configured in `spawn`,
/// which must not apply to started())
#[allow(clippy::too_many_arguments)]
fn make_case_slow(progs: &[Vec<A>], spawn: SpawnCfg, attach: Attach, start_err: Option<usize>, tick: bool, owner: bool, slow_start: u32) -> Case {
    let mut clients = vec![];
    for (c, p) in progs.iter().enumerate() {
        let ops: Vec<Op> = p.iter().enumerate().map(|(i, a)| to_op(*a, msg_id(c, i))).collect();
        let mut init = vec![HInit::Addr, HInit::WAddr];
        if owner && c == 0 {
            init.push(HInit::Own);
        }
        clients.push(ClientSpec { init, ops });
    }
    // when the start fails the address must resolve with an error: a watcher awaits it (in the
    // other scenes an awaiter would itself keep the actor alive; they end by stop or last drop)
    if start_err == Some(0) {
        clients.push(ClientSpec { init: vec![HInit::Addr], ops: vec![Op::Await(H::Addr(0))] });
    }
    if start_err == Some(1) {
        // the restart may never be processed (a stop can win): the watcher stops the actor at
        // t=2 (rejected if it already failed) and awaits it
        clients.push(ClientSpec { init: vec![HInit::Addr], ops: vec![Op::Sleep(2), Op::Stop(H::Addr(0)), Op::Await(H::Addr(0))] });
    }
    let mut role = RoleCfg::default();
    if SLOW_FIRST.with(|s| s.get()) {
        role.work.push((msg_id(0, 0), crate::world::Work { sleep: 5, ..Default::default() }));
    }
    if let Some(n) = start_err {
        role.started = vec![StartBeh::Ok; n];
        role.started.push(StartBeh::Err);
    }
    if tick {
        role.started_actions.push(Action::Interval { timer: 1, period: 1 });
    }
    match HOOK_ACTS.with(|h| h.get()) {
        // the actor asks for its own stop from started(): whatever is queued is still handled
        // after started() completed, then stopped() - once
        1 => role.started_actions.push(Action::Stop),
        // ... and once more from stopped(), where there is nothing left to stop
        2 => role.stopped_actions.push(Action::Stop),
        // the actor subscribes to a broker topic and publishes on it (to itself) in started():
        // the broker has delivered to it once - and still lets it end when its handles are gone
        3 => {
            role.started_actions.push(Action::Subscribe { topic: 1 });
            role.started_actions.push(Action::Publish { topic: 1, id: 77 });
        }
        _ => {}
    }
    role.started_sleep = slow_start;
    // (the same for stopped(): whatever the handler timeout is, the hook runs to its end)
    role.stopped_sleep = slow_start;
    let stream = attach != Attach::None;
    let default_finished = matches!(attach, Attach::Stream { via: StreamVia::SpawnOnStreamPlainItems | StreamVia::BuildOnStreamPlainItems, .. });
    let hook_tag = match HOOK_ACTS.with(|h| h.get()) {
        1 => " [ctx.stop() in started()]",
        2 => " [ctx.stop() in stopped()]",
        3 => " [subscribed and published to in started()]",
        _ => "",
    };
    let desc = format!(
        "lifecycle{hook_tag} {:?} strat={:?} mailbox={} timeout={:?} slow_start={slow_start} attach={:?} start_err={:?} tick={} progs={}",
        if stream { "stream" } else { "plain" },
        spawn.strat,
        spawn.mailbox.name(),
        spawn.timeout,
        attach,
        start_err,
        tick,
        progs.iter().map(|p| p.iter().map(|l| format!("{l:?}")).collect::<Vec<_>>().join(",")).collect::<Vec<_>>().join(" | ")
    );
    Case {
        desc,
        exec: ExecCfg { horizon: 3 + slow_start as u64 * 8, ..ExecCfg::default() },
        bound: None,
        scene: Box::new(ProgScene { variant: crate::progscene::current_variant(), spawn, attach, roles: vec![role], clients, extra: X { stream, default_finished, start_err, abandoned: if SLOW_FIRST.with(|s| s.get()) && spawn.timeout.is_some() { Some(msg_id(0, 0)) } else { None } }, oracle }),
    }
}

fn seqs(alpha: &[A], n: usize) -> Vec<Vec<A>> {
    let mut out: Vec<Vec<A>> = vec![vec![]];
    for _ in 0..n {
        out = out.into_iter().flat_map(|p| alpha.iter().map(move |l| { let mut q = p.clone(); q.push(*l); q })).collect();
    }
    out
}

fn base_cases(tier: Tier) -> Vec<Case> {
    let mut v = vec![];
    let mbs: &[Mailbox] = if tier == Tier::Quick { &[Mailbox::U, Mailbox::B(1)] } else { &[Mailbox::U, Mailbox::B(0), Mailbox::B(1)] };
    // plain actors
    let alpha = [A::Send, A::Call, A::StopAddr, A::StopWeak, A::CtxStop, A::Restart, A::DropAddr];
    for &mb in mbs {
        for strat in [Strat::Default, Strat::Recreate, Strat::NonRestartable] {
            let spawn = SpawnCfg { mailbox: mb, strat, timeout: None };
            for start_err in [None, Some(0), Some(1)] {
                for tick in [false, true] {
                    for n in 1..=2 {
                        for p in seqs(&alpha, n) {
                            // a failing restart needs a restartable strategy and a restart request
                            if start_err == Some(1) && (strat == Strat::NonRestartable || !p.contains(&A::Restart)) {
                                continue;
                            }
                            v.push(make_case(&[p], spawn, Attach::None, start_err, tick, false));
                        }
                    }
                    if !tick {
                        for p in seqs(&alpha, 1) {
                            for q in seqs(&alpha, 1) {
                                if start_err == Some(1) && (strat == Strat::NonRestartable || !(p.contains(&A::Restart) || q.contains(&A::Restart))) {
                                    continue;
                                }
                                v.push(make_case(&[p.clone(), q], spawn, Attach::None, start_err, tick, false));
                            }
                        }
                        // restart first, then traffic queued behind it
                        if start_err == Some(1) && strat != Strat::NonRestartable {
                            for q in seqs(&[A::Send, A::Call, A::CtxStop], 2) {
                                v.push(make_case(&[vec![A::Restart, q[0], q[1]]], spawn, Attach::None, start_err, tick, false));
                            }
                        }
                        // consume by the owner, racing with a submitter
                        if start_err != Some(1) {
                            for q in seqs(&[A::Send, A::Call, A::StopAddr], 1) {
                                v.push(make_case(&[vec![A::Consume], q], spawn, Attach::None, start_err, tick, true));
                            }
                        }
                    }
                }
            }
        }
    }
    // a handler timeout is configured and started() takes longer than it: the timeout is about
    // handlers, started() still completes before anything is handled (also on restart)
    for &mb in mbs {
        for strat in [Strat::Default, Strat::Recreate] {
            for fail in [false, true] {
                let spawn = SpawnCfg { mailbox: mb, strat, timeout: Some((2, fail)) };
                for n in 1..=2 {
                    for p in seqs(&[A::Send, A::Call, A::StopAddr, A::Restart], n) {
                        v.push(make_case_slow(&[p], spawn, Attach::None, None, false, false, 5));
                    }
                }
            }
        }
    }
    // a handler that outlasts a carry-on limit is abandoned - and that is all: no lifecycle
    // callback runs because of it (the first message takes 5 ticks, the limit is 2)
    SLOW_FIRST.with(|s| s.set(true));
    for &mb in mbs {
        for strat in [Strat::Default, Strat::Recreate, Strat::NonRestartable] {
            let spawn = SpawnCfg { mailbox: mb, strat, timeout: Some((2, false)) };
            for p in [vec![A::Send, A::Call], vec![A::Call, A::Send, A::StopAddr], vec![A::Send, A::Send, A::DropAddr]] {
                let mut c = make_case(&[p], spawn, Attach::None, None, false, false);
                c.exec.horizon = 12;
                c.exec.select_choice = false;
                v.push(c);
            }
        }
    }
    SLOW_FIRST.with(|s| s.set(false));
    // an observer that stops the actor and awaits its address, while stopped() (and started())
    // take a tick: what it is told marks the end - for plain and for stream-attached actors
    for &mb in mbs {
        for strat in [Strat::Default, Strat::NonRestartable] {
            let spawn = SpawnCfg { mailbox: mb, strat, timeout: None };
            for p in [vec![vec![A::Halt]], vec![vec![A::Send, A::Halt]], vec![vec![A::Call, A::Halt]], vec![vec![A::Halt], vec![A::Send]], vec![vec![A::Halt], vec![A::Halt]], vec![vec![A::CtxStop], vec![A::Halt]]] {
                v.push(make_case_slow(&p, spawn, Attach::None, None, false, false, 1));
            }
        }
    }
    for via in [StreamVia::SpawnOnStream, StreamVia::BuildOnStream, StreamVia::BoundedOnStream(1)] {
        for attach in [Attach::Stream { via, prefill: vec![71], close: false }, Attach::Stream { via, prefill: vec![71, 72], close: true }] {
            for p in [vec![vec![A::Halt]], vec![vec![A::Send, A::Halt]], vec![vec![A::Halt], vec![A::Call]]] {
                v.push(make_case_slow(&p, SpawnCfg::plain(Mailbox::U), attach.clone(), None, false, false, 1));
            }
        }
    }
    if tier == Tier::Thorough {
        for &mb in mbs {
            for strat in [Strat::Default, Strat::Recreate, Strat::NonRestartable] {
                let spawn = SpawnCfg { mailbox: mb, strat, timeout: None };
                for start_err in [None, Some(1)] {
                    for p in seqs(&alpha, 3) {
                        if start_err == Some(1) && (strat == Strat::NonRestartable || !p.contains(&A::Restart)) {
                            continue;
                        }
                        v.push(make_case(&[p], spawn, Attach::None, start_err, false, false));
                    }
                    for p in seqs(&alpha, 2) {
                        for q in seqs(&alpha, 1) {
                            if start_err == Some(1) && (strat == Strat::NonRestartable || !(p.contains(&A::Restart) || q.contains(&A::Restart))) {
                                continue;
                            }
                            v.push(make_case(&[p.clone(), q], spawn, Attach::None, start_err, true, false));
                        }
                    }
                }
            }
        }
    }
    // stream-attached actors
    let salpha = [A::Send, A::Call, A::StopAddr, A::CtxStop, A::DropAddr, A::Feed, A::Close];
    let vias = [StreamVia::SpawnOnStream, StreamVia::BuildOnStream, StreamVia::BoundedOnStream(1), StreamVia::SpawnOwningOnStream, StreamVia::SpawnOnStreamPlainItems, StreamVia::BuildOnStreamPlainItems];
    for via in vias {
        let attaches = [
            Attach::Stream { via, prefill: vec![], close: true },
            Attach::Stream { via, prefill: vec![71, 72], close: true },
            Attach::Stream { via, prefill: vec![71], close: false },
            Attach::Stream { via, prefill: vec![], close: false },
        ];
        for attach in attaches {
            for start_err in [None, Some(0)] {
                let spawn = SpawnCfg::plain(Mailbox::U);
                for n in 1..=2 {
                    for p in seqs(&salpha, n) {
                        v.push(make_case(&[p], spawn, attach.clone(), start_err, false, false));
                    }
                }
                // spawn_on_stream / spawn_owning_on_stream leave the restart strategy in place, so
                // a restart can be sent to such an actor: the stream loop has no restart (it
                // gives up, an abnormal end) - what it must not do is run half a protocol
                if matches!(via, StreamVia::SpawnOnStream | StreamVia::SpawnOwningOnStream) {
                    for p in [vec![A::Restart, A::Call], vec![A::Call, A::Restart, A::Send], vec![A::Restart, A::StopAddr], vec![A::Feed, A::Restart, A::Close]] {
                        v.push(make_case(&[p], spawn, attach.clone(), start_err, false, false));
                    }
                }
                if tier == Tier::Thorough || via == StreamVia::BuildOnStream {
                    for p in seqs(&salpha, 1) {
                        for q in seqs(&salpha, 1) {
                            v.push(make_case(&[p.clone(), q], spawn, attach.clone(), start_err, false, false));
                        }
                    }
                }
            }
        }
    }
    v
}

fn cases(tier: Tier) -> Vec<Case> {
    // neutral re-configurations of the plain-loop cases (see check::widen): a handler timeout
    // nobody comes near and a bounded mailbox that never fills
    let plain = |d: &str| d.contains("lifecycle \"plain\"") && d.contains("timeout=None");
    let mut v = base_cases(tier);
    // context operations from inside the hooks (every second case; thorough: all)
    for mode in [1u8, 2, 3] {
        let step = if tier == Tier::Thorough { 1 } else if mode == 3 { 8 } else { 2 };
        v.extend(with_hook_acts(mode, || base_cases(tier)).into_iter().enumerate().filter(|(i, _)| i % step == 0).map(|(_, c)| c));
    }
    v.extend(crate::check::with_ambient(base_cases(tier).into_iter().filter(|c| plain(&c.desc)).collect(), crate::scenes::Ambient { generous_timeout: true, roomy: true, ..Default::default() }));
    v
}

pub fn property() -> Property {
    Property {
        id: "C03",
        cases,
        clauses: &["protocol", "graceful-end", "start-failure", "start-failure-on-restart", "nothing-after-the-end"],
        full_rerun_check: true,
        assumptions: &["a restart can be sent to a stream-attached actor only when it was spawned by spawn_on_stream / spawn_owning_on_stream (the stream builder is non-restartable); the stream loop gives up on it, which counts as an abnormal end: such cases are in the stream alphabet with a few fixed programs"],
    }
}
