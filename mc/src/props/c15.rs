//! C15: every strong handle kind keeps the actor fully functional, not just reachable.

use crate::{
    check::{Case, Property, Scene, Tier, Trace, Violation},
    ops::{run_client, Handles, Op, H},
    scenes::{spawn_probe, Mailbox, SpawnCfg},
    trace::An,
    vexec::{Exec, ExecCfg},
    world::{Action, Ask, Cb, CtxOp, Ev, Note, Res, RoleCfg},
};

#[derive(Clone, Copy, Debug, PartialEq, Eq)]
enum Path {
    Direct,
    ViaWeakUpgrade,
    CloneOfKind,
}

struct S {
    /// which strong kinds survive: [Addr, Own, Snd, Cal]
    subset: [bool; 4],
    path: Path,
    mailbox: Mailbox,
    /// number of self-restarts (Context::restart from a handler), one after the other
    with_restart: u8,
    /// a backlog of non-waiting traffic is queued (behind a slow message) before the probes
    burst: bool,
    /// where the owner is not among the surviving kinds it is *dropped* (after `to_addr`) instead
    /// of detached: an OwningAddr is a strong handle like the others, letting go of it stops
    /// nothing while another one is left
    owner_dropped: bool,
    /// timer deadlines may fire while tasks are runnable (thorough tier): ticks are then handled
    /// no earlier than due, but not necessarily at the exact instant
    time_races: bool,
    /// the actor also arms two one-shots with a zero delay in started() ("right after this
    /// callback"): a zero delay is a delay like any other
    zero_shots: bool,
    /// at t=5 a slow message (3 ticks) and two more go in through the waiting path: on a small
    /// bounded mailbox the interval's tick at t=6 finds no room - and must not mind
    backlog: bool,
    /// the owner (where it is among the survivors) starts a join, polls it once and gives it up
    /// (a timeout or a `select!` around `join()`): the OwningAddr is a strong handle as before
    join_abandoned: bool,
}

const M_UPWS: u32 = 11;
const M_UPWA: u32 = 12;
const M_UPWC: u32 = 13;
const M_RESTART: u32 = 14;
const M_AFTER: u32 = 15;
const M_STOP: u32 = 16;

fn subset_name(s: &[bool; 4]) -> String {
    let names = ["Addr", "OwningAddr", "Sender", "Caller"];
    s.iter().zip(names).filter(|(b, _)| **b).map(|(_, n)| n).collect::<Vec<_>>().join("+")
}

impl S {
    /// submit message `id` through whatever the subset offers (preferring the weakest kind so
    /// that each kind is exercised)
    fn submit(&self, id: u32) -> Op {
        if self.subset[3] {
            Op::Call(H::Cal(0), id)
        } else if self.subset[2] {
            Op::Send(H::Snd(0), id)
        } else if self.subset[1] {
            Op::Call(H::Own(0), id)
        } else {
            Op::Call(H::Addr(0), id)
        }
    }
}

impl Scene for S {
    fn roles(&self) -> Vec<RoleCfg> {
        let mut r = RoleCfg::default();
        r.started_actions = vec![Action::Interval { timer: 1, period: 2 }, Action::DelayedSend { timer: 2, delay: 3 }];
        if self.zero_shots {
            r.started_actions.push(Action::DelayedSend { timer: 5, delay: 0 });
            r.started_actions.push(Action::DelayedExec { timer: 6, delay: 0 });
            // ... and a second and a third interval (all ticks are one message type)
            r.started_actions.push(Action::Interval { timer: 7, period: 3 });
            r.started_actions.push(Action::IntervalWith { timer: 8, period: 4 });
        }
        r.msg_actions = vec![
            (M_UPWS, Action::UpWeakSender),
            (M_UPWA, Action::UpWeakAddr),
            (M_UPWC, Action::UpWeakCaller),
            (M_RESTART, Action::Restart),
            (M_STOP, Action::Stop),
        ];
        if self.burst {
            r.work.push((30, crate::world::Work { sleep: 1, ..Default::default() }));
        }
        if self.backlog {
            r.work.push((30, crate::world::Work { sleep: 3, ..Default::default() }));
            // ... and an interval_with of period 1, whose waiting send is held up for longer than
            // its period while the backlog lasts
            r.started_actions.push(Action::IntervalWith { timer: 8, period: 1 });
        }
        vec![r]
    }

    fn setup(&self, exec: &Exec) {
        let owning = spawn_probe(0, SpawnCfg::plain(self.mailbox));
        let base = owning.to_addr();
        let mut h = Handles::default();
        // weak handles for the upgrade probes
        h.waddr.push(Some(base.downgrade()));
        h.wsnd.push(Some(base.weak_sender::<Note>()));
        h.wcal.push(Some(base.weak_caller::<Ask>()));
        let mut owning = Some(owning);
        if self.subset[0] {
            h.addr.push(Some(match self.path {
                Path::Direct => base.clone(),
                Path::ViaWeakUpgrade => base.downgrade().upgrade().expect("upgrade while alive"),
                Path::CloneOfKind => {
                    let c = base.clone();
                    c.clone()
                }
            }));
        }
        if self.subset[1] {
            h.own.push(owning.take());
        }
        if self.subset[2] {
            h.snd.push(Some(match self.path {
                Path::Direct => base.sender::<Note>(),
                Path::ViaWeakUpgrade => base.weak_sender::<Note>().upgrade().expect("upgrade while alive"),
                Path::CloneOfKind => {
                    let s = base.sender::<Note>();
                    s.clone()
                }
            }));
        }
        if self.subset[3] {
            h.cal.push(Some(match self.path {
                Path::Direct => base.caller::<Ask>(),
                Path::ViaWeakUpgrade => base.weak_caller::<Ask>().upgrade().expect("upgrade while alive"),
                Path::CloneOfKind => {
                    let s = base.caller::<Ask>();
                    s.clone()
                }
            }));
        }
        if let Some(o) = owning.take() {
            if self.owner_dropped {
                drop(o);
            } else {
                drop(o.detach());
            }
        }
        // a second client holds one more plain address for a while and drops it concurrently
        let extra = Handles::with_addr(base);
        let mut ops = vec![];
        if self.join_abandoned && self.subset[1] {
            ops.extend([Op::JoinStart(H::Own(0)), Op::JoinPollOnce(0), Op::Sleep(1), Op::JoinDrop(0), Op::Sleep(4)]);
        } else {
            ops.push(Op::Sleep(5));
        }
        if self.burst {
            // one slow message, then more forced messages than any small bound has room for
            ops.extend([Op::ForceSend(H::WSnd(0), 30), Op::ForceSend(H::WSnd(0), 31), Op::ForceSend(H::WSnd(0), 32), Op::ForceSend(H::WSnd(0), 33), Op::ForceSend(H::WSnd(0), 34)]);
        }
        if self.backlog {
            let h = if self.subset[2] { H::Snd(0) } else { H::Addr(0) };
            ops.extend([Op::Send(h, 30), Op::Send(h, 35), Op::Send(h, 36), Op::Sleep(8)]);
        }
        ops.extend([
            Op::UpgradeProbe(H::WAddr(0)),
            Op::UpgradeProbe(H::WSnd(0)),
            Op::UpgradeProbe(H::WCal(0)),
            self.submit(M_UPWS),
            self.submit(M_UPWA),
            self.submit(M_UPWC),
        ]);
        for _ in 0..self.with_restart {
            ops.push(self.submit(M_RESTART));
            ops.push(Op::Sleep(5));
            ops.push(self.submit(M_AFTER));
            ops.push(Op::UpgradeProbe(H::WSnd(0)));
            // the new incarnation's own context is as functional as the first one's
            ops.push(self.submit(M_UPWS));
            ops.push(self.submit(M_UPWA));
            ops.push(self.submit(M_UPWC));
        }
        ops.push(self.submit(M_STOP));
        // keep the handles until the (possibly fire-and-forget) probes have been handled
        ops.push(Op::Sleep(3));
        // ... and while they are kept, the weak handles upgrade - also now that the actor has
        // stopped itself (what keeps a handle upgradable is the strong handles, nothing else)
        ops.extend([Op::UpgradeProbe(H::WAddr(0)), Op::UpgradeProbe(H::WSnd(0)), Op::UpgradeProbe(H::WCal(0))]);
        exec.spawn_client(0, run_client(0, h, ops));
        exec.spawn_client(1, run_client(1, extra, vec![Op::Yield, Op::Drop(H::Addr(0))]));
    }

    fn check(&self, t: &Trace) -> Vec<Violation> {
        let an = An::new(t.log);
        let mut out = vec![];
        let sub = subset_name(&self.subset);
        // context operations succeed while a strong handle exists
        for e in t.log {
            if let Ev::Ctx { .. } = e.ev {
                crate::check::oblige("context-ops-succeed");
            }
            if let Ev::Ctx { op, ok: false, .. } = e.ev {
                let what = match op {
                    CtxOp::Stop => "ctx.stop",
                    CtxOp::Restart => "ctx.restart",
                    CtxOp::UpWeakSender => "ctx.weak_sender.upgrade",
                    CtxOp::UpWeakAddr => "ctx.weak_address.upgrade",
                    CtxOp::UpWeakCaller => "ctx.weak_caller.upgrade",
                    _ => "ctx-op",
                };
                out.push(Violation {
                    clause: "context-ops-succeed",
                    key: format!("C15/only-strong={sub}/{what}"),
                    detail: format!("{what} failed although the strong handle(s) {sub} were alive"),
                });
            }
        }
        // client-side upgrades
        for o in &an.ops {
            if o.c == 0 && matches!(o.res, Some(Res::None)) {
                out.push(Violation {
                    clause: "weak-upgrades-succeed",
                    key: format!("C15/only-strong={sub}/client-upgrade"),
                    detail: format!("client upgrade (op {}) returned None although {sub} was alive", o.i),
                });
            }
        }
        // timers keep firing: interval period 2 -> ticks at t=2 and t=4 before the probes at t=5;
        // delayed_send(5) exactly once
        crate::check::oblige("timers-keep-firing");
        let ticks1: Vec<u64> = an.enters.iter().filter(|e| matches!(e.cb, Cb::Tick { timer: 1, reg_inc: 0 })).map(|e| e.time).collect();
        let d: Vec<u64> = an.enters.iter().filter(|e| matches!(e.cb, Cb::Tick { timer: 2, reg_inc: 0 })).map(|e| e.time).collect();
        if self.time_races {
            // one-sided: with deadlines firing while tasks are runnable, a woken timer task may
            // not get to run before the actor stops itself - what remains is "never early, the
            // one-shot at most once" (the exact runs of the same cases require the presence)
            if ticks1.iter().enumerate().any(|(k, t)| *t < 2 * (k as u64 + 1)) {
                out.push(Violation {
                    clause: "timers-keep-firing",
                    key: format!("C15/only-strong={sub}/interval"),
                    detail: format!("interval(period 2) ticks were handled at {ticks1:?}; the k-th must not come before t=2k"),
                });
            }
            if d.len() > 1 || d.iter().any(|t| *t < 3) {
                out.push(Violation {
                    clause: "timers-keep-firing",
                    key: format!("C15/only-strong={sub}/delayed_send"),
                    detail: format!("delayed_send(3) was handled at {d:?}; expected at most once, not before t=3"),
                });
            }
        } else {
            if !(ticks1.contains(&2) && ticks1.contains(&4)) {
                out.push(Violation {
                    clause: "timers-keep-firing",
                    key: format!("C15/only-strong={sub}/interval"),
                    detail: format!("interval(period 2) ticks were handled at {ticks1:?}; expected at t=2 and t=4"),
                });
            }
            if d != vec![3] {
                out.push(Violation {
                    clause: "timers-keep-firing",
                    key: format!("C15/only-strong={sub}/delayed_send"),
                    detail: format!("delayed_send(3) was handled at {d:?}; expected exactly once at t=3"),
                });
            }
        }
        for r in 1..=(if self.time_races { 0 } else { self.with_restart as u16 }) {
            let t1: Vec<u64> = an.enters.iter().filter(|e| matches!(e.cb, Cb::Tick { timer: 1, reg_inc } if reg_inc == r)).map(|e| e.time).collect();
            if t1.len() < 2 {
                out.push(Violation {
                    clause: "timers-keep-firing",
                    key: format!("C15/only-strong={sub}/interval-after-restart"),
                    detail: format!("after self-restart #{r} the interval ticked at {t1:?}; expected two ticks within 5 ticks"),
                });
            }
        }
        if self.backlog {
            crate::check::oblige("timers-keep-firing");
            // the slow message runs from t=5 to t=8, the client's Sleep(8) ends at t>=13: ticks of
            // the interval are due (and the actor is idle) at t=10 and t=12
            if !an.enters.iter().any(|e| matches!(e.cb, Cb::Tick { timer: 8, reg_inc: 0 }) && e.time >= 11) {
                out.push(Violation {
                    clause: "timers-keep-firing",
                    key: format!("C15/only-strong={sub}/interval_with-after-a-full-mailbox"),
                    detail: "the interval_with (period 1) was held up by the full mailbox from t=6 to t=8; afterwards it never ticked again".into(),
                });
            }
            if !an.enters.iter().any(|e| matches!(e.cb, Cb::Tick { timer: 1, reg_inc: 0 }) && e.time >= 10) {
                out.push(Violation {
                    clause: "timers-keep-firing",
                    key: format!("C15/only-strong={sub}/interval-after-a-full-mailbox"),
                    detail: format!("the interval found the bounded mailbox full at t=6; once the backlog was worked off (t=8) it never ticked again (ticks handled at {ticks1:?})"),
                });
            }
        }
        if self.zero_shots {
            for r in 0..=self.with_restart as u16 {
                let started = an.enters.iter().find(|e| e.a == 0 && e.cb == Cb::Started && e.inc == r).map(|e| e.time);
                let Some(st) = started else { continue };
                let sends: Vec<u64> = an.enters.iter().filter(|e| e.cb == Cb::Tick { timer: 5, reg_inc: r }).map(|e| e.time).collect();
                let execs: Vec<u64> = an.enters.iter().filter(|e| e.cb == Cb::Exec { timer: 6, reg_inc: r }).map(|e| e.time).collect();
                // the other intervals tick as well, next to the first one (checked above)
                for (timer, period) in [(7u8, 3u64), (8, 4)] {
                    if r == 0 && !an.enters.iter().any(|e| e.cb == (Cb::Tick { timer, reg_inc: 0 }) && e.time == st + period) {
                        out.push(Violation {
                            clause: "timers-keep-firing",
                            key: format!("C15/only-strong={sub}/one-of-several-intervals"),
                            detail: format!("interval {timer} (period {period}), registered next to two others, was not handled at t={}", st + period),
                        });
                    }
                }
                if sends != vec![st] || execs != vec![st] {
                    out.push(Violation {
                        clause: "timers-keep-firing",
                        key: format!("C15/only-strong={sub}/zero-delay-one-shots"),
                        detail: format!("incarnation {r} (started at t={st}) armed delayed_send and delayed_exec with a zero delay; handled at {sends:?} / {execs:?}, expected once each at t={st}"),
                    });
                }
            }
        }
        // a self-restart that reported success takes effect: one more incarnation starts
        let accepted = t.log.iter().filter(|e| matches!(e.ev, Ev::Ctx { op: CtxOp::Restart, ok: true, .. })).count();
        let starts = an.enters.iter().filter(|e| e.a == 0 && e.cb == Cb::Started).count();
        if accepted > 0 {
            crate::check::oblige("restart-takes-effect");
        }
        if an.task_end(0).is_some() && starts != 1 + accepted {
            out.push(Violation {
                clause: "restart-takes-effect",
                key: format!("C15/only-strong={sub}/restart-without-effect"),
                detail: format!("{accepted} self-restart(s) reported success but started() ran {starts} time(s)"),
            });
        }
        // every probe message was handled by the original instance (under the recreate strategy:
        // the first incarnation was); the self-stop terminated it
        let recreate = crate::scenes::ambient().recreate;
        for e in &an.enters {
            if e.a == 0 && e.inst != 0 && !(recreate && e.inc > 0) {
                out.push(Violation {
                    clause: "identity-preserved",
                    key: format!("C15/only-strong={sub}/identity"),
                    detail: format!("callback {:?} ran on instance {}", e.cb, e.inst),
                });
            }
        }
        for id in [M_UPWS, M_UPWA, M_UPWC, M_STOP] {
            if an.exit_of_msg(0, id).is_none() {
                out.push(Violation {
                    clause: "reachable",
                    key: format!("C15/only-strong={sub}/probe-not-handled"),
                    detail: format!("probe message {id} submitted through {sub} was not handled"),
                });
            }
        }
        if an.task_end(0).is_none() {
            out.push(Violation {
                clause: "self-stop-works",
                key: format!("C15/only-strong={sub}/not-terminated-after-ctx.stop"),
                detail: "the actor did not terminate after stopping itself".into(),
            });
        }
        out
    }
}

/// One tick handler outlasts a carry-on handler timeout and is abandoned; the interval, the
/// handles and the actor go on as if nothing had happened.
struct AbandonedTick {
    /// the only strong handle kept: 0 Addr, 1 OwningAddr, 2 Sender, 3 Caller
    kind: usize,
    mailbox: Mailbox,
    /// which tick is the slow one (1-based); 0: none - instead the actor, built non-restartable,
    /// asks for its own restart at t=3 (which is ignored: nothing may happen to its timers)
    nth: u32,
    with_interval_with: bool,
}

impl Scene for AbandonedTick {
    fn roles(&self) -> Vec<RoleCfg> {
        let mut r = RoleCfg::default();
        r.started_actions = vec![if self.with_interval_with { Action::IntervalWith { timer: 1, period: 2 } } else { Action::Interval { timer: 1, period: 2 } }];
        if self.nth > 0 {
            r.slow_tick = Some((self.nth, crate::world::Work { sleep: 5, ..Default::default() }));
        } else {
            r.msg_actions = vec![(M_RESTART, Action::Restart)];
        }
        vec![r]
    }

    fn setup(&self, exec: &Exec) {
        let cfg = if self.nth > 0 {
            SpawnCfg { mailbox: self.mailbox, strat: crate::scenes::Strat::Default, timeout: Some((2, false)) }
        } else {
            SpawnCfg { mailbox: self.mailbox, strat: crate::scenes::Strat::NonRestartable, timeout: None }
        };
        let owning = spawn_probe(0, cfg);
        let base = owning.to_addr();
        let mut h = Handles::default();
        h.waddr.push(Some(base.downgrade()));
        let mut owning = Some(owning);
        let held = match self.kind {
            0 => {
                h.addr.push(Some(base.clone()));
                H::Addr(0)
            }
            1 => {
                h.own.push(owning.take());
                H::Own(0)
            }
            2 => {
                h.snd.push(Some(base.sender::<Note>()));
                H::Snd(0)
            }
            _ => {
                h.cal.push(Some(base.caller::<Ask>()));
                H::Cal(0)
            }
        };
        if let Some(o) = owning.take() {
            drop(o.detach());
        }
        drop(base);
        let ops = if self.nth > 0 {
            vec![Op::Sleep(17), Op::UpgradeProbe(H::WAddr(0)), Op::Drop(held)]
        } else {
            let ask = match held {
                H::Snd(_) => Op::Send(held, M_RESTART),
                _ => Op::Call(held, M_RESTART),
            };
            vec![Op::Sleep(3), Op::UpgradeProbe(H::WAddr(0)), ask, Op::Sleep(14), Op::Drop(held)]
        };
        exec.spawn_client(0, run_client(0, h, ops));
    }

    fn check(&self, t: &Trace) -> Vec<Violation> {
        let an = An::new(t.log);
        let mut out = vec![];
        let kind = ["Addr", "OwningAddr", "Sender", "Caller"][self.kind];
        let ticks: Vec<u64> = an.enters.iter().filter(|e| matches!(e.cb, Cb::Tick { timer: 1, .. })).map(|e| e.time).collect();
        // the slow tick starts at 2*nth and is abandoned two ticks later; until the client lets
        // go at t=17 the ticks due at 2, 4, .., 16 are all handled (the ones that came due
        // during the slow one right after it)
        let abandoned_at = if self.nth > 0 { 2 * self.nth as u64 + 2 } else { 4 };
        let after = ticks.iter().filter(|t| **t >= abandoned_at && **t <= 16).count();
        let due_after = (abandoned_at..=16).filter(|t| t % 2 == 0).count();
        crate::check::oblige("timers-keep-firing");
        if ticks.len() < 8 || after < due_after {
            out.push(Violation {
                clause: "timers-keep-firing",
                key: format!("C15/only-strong={kind}/interval-dead-after-{}", if self.nth > 0 { "abandoned-tick" } else { "ignored-restart" }),
                detail: format!(
                    "{}; ticks were handled at {ticks:?}, expected all of t=2,4,..,16 ({due_after} of them from t={abandoned_at} on)",
                    if self.nth > 0 { format!("tick #{} outlasted the (carry-on) handler timeout", self.nth) } else { "the non-restartable actor asked for its own restart at t=3".to_string() }
                ),
            });
        }
        for o in &an.ops {
            if o.c == 0 && o.i == 1 && matches!(o.res, Some(Res::None)) {
                out.push(Violation {
                    clause: "weak-upgrades-succeed",
                    key: format!("C15/only-strong={kind}/client-upgrade"),
                    detail: format!("a weak address did not upgrade although {kind} was alive"),
                });
            }
        }
        if an.task_end(0).is_none() {
            out.push(Violation {
                clause: "self-stop-works",
                key: format!("C15/only-strong={kind}/not-terminated-after-last-drop"),
                detail: "the actor did not terminate after the last strong handle was dropped".into(),
            });
        }
        out
    }
}

fn abandoned_tick_cases(tier: Tier) -> Vec<Case> {
    let mut v = vec![];
    let mbs: &[Mailbox] = if tier == Tier::Quick { &[Mailbox::U, Mailbox::B(1)] } else { &[Mailbox::U, Mailbox::B(0), Mailbox::B(1), Mailbox::B(2)] };
    for kind in 0..4 {
        for &mailbox in mbs {
            for nth in [0u32, 1, 2, 3] {
                for with_interval_with in [false, true] {
                    v.push(Case {
                        desc: if nth > 0 {
                            format!("strong-kinds [tick #{nth} abandoned by a carry-on timeout] only={} mailbox={} interval_with={with_interval_with}", ["Addr", "OwningAddr", "Sender", "Caller"][kind], mailbox.name())
                        } else {
                            format!("strong-kinds [non-restartable, asks for its own restart] only={} mailbox={} interval_with={with_interval_with}", ["Addr", "OwningAddr", "Sender", "Caller"][kind], mailbox.name())
                        },
                        // the slow tick takes 5 > 2: the timeout's select! never has both arms ready
                        exec: ExecCfg { horizon: 30, select_choice: false, ..ExecCfg::default() },
                        bound: None,
                        scene: Box::new(AbandonedTick { kind, mailbox, nth, with_interval_with }),
                    });
                }
            }
        }
    }
    v
}

/// "Conversions between handle kinds never change which actor is addressed" - as seen by a
/// third party that tells actors apart: the broker. The actor subscribes itself through its
/// context; a client names the same actor through a handle it derived along some conversion
/// path. Subscribing again through that name must not double the deliveries, unsubscribing
/// through it must end them.
struct BrokerIdentity {
    /// 0 Addr, 1 clone of a clone, 2 downgrade + upgrade, 3 OwningAddr::to_addr, 4 Sender::downgrade, 5 WeakAddr::upgrade of a context-made weak address is not available to clients: weak_sender of a detached owner
    path: u8,
    mailbox: Mailbox,
}

impl Scene for BrokerIdentity {
    fn roles(&self) -> Vec<RoleCfg> {
        let mut r = RoleCfg::default();
        r.started_actions = vec![Action::Subscribe { topic: 1 }];
        vec![r]
    }
    fn pre(&self) {
        use futures::FutureExt as _;
        let _ = hannibal::Addr::<hannibal::Broker<crate::world::T1>>::unregister().now_or_never();
    }
    fn setup(&self, exec: &Exec) {
        use crate::world::{log, T1};
        use hannibal::{Broker, Service as _};
        let owning = spawn_probe(0, SpawnCfg::plain(self.mailbox));
        let path = self.path;
        exec.spawn_client(0, async move {
            let step = |i: u16, r: Res| log(Ev::End { c: 0, i, r });
            let ru = |r: hannibal::error::Result<()>| if r.is_ok() { Res::Ok } else { Res::Err(crate::world::ErrKind::Send) };
            // let the actor start (and subscribe itself) first
            log(Ev::Begin { c: 0, i: 0 });
            crate::world::sleep(2).await;
            step(0, Res::Ok);
            let addr = owning.to_addr();
            let name: hannibal::WeakSender<T1> = match path {
                0 => addr.weak_sender::<T1>(),
                1 => addr.clone().clone().weak_sender::<T1>(),
                2 => addr.downgrade().upgrade().expect("upgrade while alive").weak_sender::<T1>(),
                3 => owning.to_addr().weak_sender::<T1>(),
                4 => addr.sender::<T1>().downgrade(),
                _ => addr.sender::<T1>().downgrade().upgrade().expect("upgrade while alive").downgrade(),
            };
            log(Ev::Begin { c: 0, i: 1 });
            step(1, ru(Broker::<T1>::subscribe(name.clone()).await));
            log(Ev::Begin { c: 0, i: 2 });
            step(2, ru(Broker::<T1>::publish(T1(41)).await));
            log(Ev::Begin { c: 0, i: 3 });
            let _ = addr.ping().await;
            step(3, ru(Broker::<T1>::from_registry().await.unsubscribe(name).await));
            log(Ev::Begin { c: 0, i: 4 });
            step(4, ru(Broker::<T1>::publish(T1(42)).await));
            // keep the actor alive until everything published has been delivered
            log(Ev::Begin { c: 0, i: 5 });
            crate::world::sleep(3).await;
            drop(addr);
            drop(owning);
            step(5, Res::Ok);
        });
    }
    fn check(&self, t: &Trace) -> Vec<Violation> {
        let an = An::new(t.log);
        let mut out = vec![];
        let count = |id: u32| an.enters.iter().filter(|e| e.a == 0 && e.cb == (Cb::Topic { topic: 1, id })).count();
        crate::check::oblige("conversions-address-the-same-actor");
        let (first, second) = (count(41), count(42));
        if first != 1 || second != 0 {
            out.push(Violation {
                clause: "conversions-address-the-same-actor",
                key: format!("C15/broker-sees-two-actors/path={}", self.path),
                detail: format!(
                    "the actor subscribed itself through its context and was named to the broker through a handle derived from its address (path {}): publication 41 after a second subscribe was delivered {first} time(s) (expected 1), publication 42 after the unsubscribe {second} time(s) (expected 0)",
                    self.path
                ),
            });
        }
        out
    }
}

fn broker_identity_cases() -> Vec<Case> {
    let mut v = vec![];
    for path in 0..6u8 {
        for mailbox in [Mailbox::U, Mailbox::B(1)] {
            v.push(Case {
                desc: format!("strong-kinds [named to the broker through conversion path {path}] mailbox={}", mailbox.name()),
                exec: ExecCfg { horizon: 30, ..ExecCfg::default() },
                bound: Some(4),
                scene: Box::new(BrokerIdentity { path, mailbox }),
            });
        }
    }
    v
}

fn base_cases(tier: Tier) -> Vec<Case> {
    let mut v = vec![];
    let mbs: &[Mailbox] = if tier == Tier::Quick { &[Mailbox::U, Mailbox::B(1)] } else { &[Mailbox::U, Mailbox::B(0), Mailbox::B(1), Mailbox::B(2)] };
    for mask in 1u8..16 {
        let subset = [mask & 1 != 0, mask & 2 != 0, mask & 4 != 0, mask & 8 != 0];
        for path in [Path::Direct, Path::ViaWeakUpgrade, Path::CloneOfKind] {
            for &mailbox in mbs {
                for (with_restart, burst) in [(0u8, false), (1, false), (2, false), (0, true)] {
                    if burst && path != Path::Direct {
                        continue;
                    }
                    // two restarts in a row: one strong kind at a time, direct handles (thorough: all)
                    if with_restart == 2 && tier == Tier::Quick && (path != Path::Direct || mask.count_ones() != 1) {
                        continue;
                    }
                    v.push(Case {
                        desc: format!("strong-kinds subset={} path={:?} mailbox={} restart={} burst={}", subset_name(&subset), path, mailbox.name(), with_restart, burst),
                        exec: ExecCfg { horizon: 30, ..ExecCfg::default() },
                        bound: None,
                        scene: Box::new(S { subset, path, mailbox, with_restart, burst, owner_dropped: false, time_races: false, zero_shots: false, backlog: false, join_abandoned: false }),
                    });
                    // a moment of backlog on a small bounded mailbox (kinds that have a waiting send)
                    if (subset[0] || subset[2]) && mask.count_ones() <= 2 && path == Path::Direct && with_restart == 0 && !burst && mailbox != Mailbox::U {
                        v.push(Case {
                            desc: format!("strong-kinds [a backlog at t=5] subset={} path={:?} mailbox={} restart={} burst={}", subset_name(&subset), path, mailbox.name(), with_restart, burst),
                            exec: ExecCfg { horizon: 40, ..ExecCfg::default() },
                            bound: Some(if tier == Tier::Thorough { 4 } else { 2 }),
                            scene: Box::new(S { subset, path, mailbox, with_restart, burst, owner_dropped: false, time_races: false, zero_shots: false, backlog: true, join_abandoned: false }),
                        });
                    }
                    // zero-delay one-shots next to the other timers (one strong kind at a time)
                    if mask.count_ones() == 1 && path == Path::Direct && with_restart <= 1 && !burst {
                        v.push(Case {
                            desc: format!("strong-kinds [zero-delay one-shots, three intervals] subset={} path={:?} mailbox={} restart={} burst={}", subset_name(&subset), path, mailbox.name(), with_restart, burst),
                            exec: ExecCfg { horizon: 30, ..ExecCfg::default() },
                            // (two more timer tasks at t=0: deviation-bounded)
                            bound: Some(if tier == Tier::Thorough { 4 } else { 2 }),
                            scene: Box::new(S { subset, path, mailbox, with_restart, burst, owner_dropped: false, time_races: false, zero_shots: true, backlog: false, join_abandoned: false }),
                        });
                    }
                    // the owner is dropped rather than detached (where it is not one of the survivors)
                    if !subset[1] && path == Path::Direct && with_restart <= 1 && !burst {
                        v.push(Case {
                            desc: format!("strong-kinds [owner dropped, not detached] subset={} path={:?} mailbox={} restart={} burst={}", subset_name(&subset), path, mailbox.name(), with_restart, burst),
                            exec: ExecCfg { horizon: 30, ..ExecCfg::default() },
                            bound: None,
                            scene: Box::new(S { subset, path, mailbox, with_restart, burst, owner_dropped: true, time_races: false, zero_shots: false, backlog: false, join_abandoned: false }),
                        });
                    }
                    // the owner gives up a join half-way and remains a strong handle like any other
                    if subset[1] && path == Path::Direct && with_restart <= 1 && !burst {
                        v.push(Case {
                            desc: format!("strong-kinds [the owner gave up a join] subset={} path={:?} mailbox={} restart={} burst={}", subset_name(&subset), path, mailbox.name(), with_restart, burst),
                            // (whether the uncontended lock inside join() suspends is a choice: the
                            // join is polled exactly once)
                            exec: ExecCfg { horizon: 30, lock_yield_is_choice: true, ..ExecCfg::default() },
                            bound: None,
                            scene: Box::new(S { subset, path, mailbox, with_restart, burst, owner_dropped: false, time_races: false, zero_shots: false, backlog: false, join_abandoned: true }),
                        });
                    }
                    // thorough: once more with timer deadlines racing runnable tasks
                    if tier == Tier::Thorough && with_restart <= 1 && !burst {
                        v.push(Case {
                            desc: format!("strong-kinds [time races] subset={} path={:?} mailbox={} restart={} burst={}", subset_name(&subset), path, mailbox.name(), with_restart, burst),
                            exec: ExecCfg { horizon: 30, max_early_fires: 1, ..ExecCfg::default() },
                            bound: None,
                            scene: Box::new(S { subset, path, mailbox, with_restart, burst, owner_dropped: false, time_races: true, zero_shots: false, backlog: false, join_abandoned: false }),
                        });
                    }
                }
            }
        }
    }
    v
}

fn cases(tier: Tier) -> Vec<Case> {
    // the same scenes under neutral re-configurations: a handler timeout nobody comes near and a
    // bounded mailbox that never fills, recreate-from-default, and (without restarts, which a
    // stream-attached actor cannot express) the stream loop
    let no_restart = |d: &str| d.contains("restart=0");
    let mut v = crate::check::widen(&|| base_cases(tier), &|_| true, &|_| true, Some(&no_restart));
    v.extend(abandoned_tick_cases(tier));
    v.extend(broker_identity_cases());
    v
}

pub fn property() -> Property {
    Property {
        id: "C15",
        cases,
        clauses: &["context-ops-succeed", "timers-keep-firing", "conversions-address-the-same-actor"],
        full_rerun_check: true,
        assumptions: &["discrete-event time in the quick tier (ticks are expected at exact virtual times)"],
    }
}
