//! C09: the broker delivers each publication exactly once, in one common order.

use hannibal::{prelude::*, Addr, Broker};

use crate::{
    check::{Case, Property, Scene, Tier, Trace, Violation},
    scenes::{spawn_probe, Mailbox, SpawnCfg},
    trace::An,
    vexec::{Exec, ExecCfg},
    world::{self, errkind, Action, Cb, Cmd, CtxOp, Ev, Probe, Res, RoleCfg, P, T1, T2},
};

#[derive(Clone, Copy, Debug, PartialEq, Eq, Hash)]
pub enum B {
    /// client-side Broker::subscribe(weak sender of subscriber s) on topic
    Sub(u8, u8),
    /// the subscriber subscribes itself from a handler (Context::subscribe)
    SubCtx(u8, u8),
    Unsub(u8, u8),
    /// Broker::publish
    Pub(u8, u32),
    /// Broker::from_registry().await.publish
    PubAddr(u8, u32),
    /// subscriber s publishes from a handler (Context::publish)
    PubCtx(u8, u8, u32),
    /// Broker::try_publish: publishes if a broker for the topic is running, otherwise says None
    /// (and starts none)
    TryPub(u8, u32),
    /// drop this client's strong handle to subscriber s
    DropSub(u8),
    StopSub(u8),
    /// restart subscriber s (it keeps its identity, so its subscription stays)
    RestartSub(u8),
    /// from now on this client holds subscriber s through a Caller (kind 0) or a Sender (kind 1)
    /// only - as strong as the address it gives up for it
    HoldThrough(u8, u8),
}

struct S {
    nsubs: u8,
    programs: Vec<Vec<B>>,
}

async fn run_b(c: u8, mut subs: Vec<Option<Addr<P>>>, ops: Vec<B>) {
    use futures::FutureExt as _;
    let mut other_kinds: Vec<Box<dyn std::any::Any>> = vec![];
    for (i, op) in ops.iter().enumerate() {
        let i = i as u16;
        world::log(Ev::Begin { c, i });
        let fut = async {
            let ru = |r: hannibal::error::Result<()>| match r {
                Ok(()) => Res::Ok,
                Err(e) => Res::Err(errkind(&e)),
            };
            match *op {
                B::Sub(s, topic) => match subs[s as usize].as_ref() {
                    Some(a) if topic == 1 => ru(Broker::<T1>::subscribe(a.weak_sender::<T1>()).await),
                    Some(a) => ru(Broker::<T2>::subscribe(a.weak_sender::<T2>()).await),
                    None => Res::None,
                },
                B::SubCtx(s, topic) => match subs[s as usize].as_ref() {
                    // resolves when the subscriber has run the command (a call-like round trip)
                    Some(a) => {
                        let r = a.send(Cmd(5000 + i as u32 + 100 * c as u32, Action::Subscribe { topic })).await;
                        let _ = a.ping().await;
                        ru(r)
                    }
                    None => Res::None,
                },
                B::Unsub(s, topic) => match subs[s as usize].as_ref() {
                    Some(a) if topic == 1 => ru(Broker::<T1>::from_registry().await.unsubscribe(a.weak_sender::<T1>()).await),
                    Some(a) => ru(Broker::<T2>::from_registry().await.unsubscribe(a.weak_sender::<T2>()).await),
                    None => Res::None,
                },
                B::Pub(topic, id) => {
                    if topic == 1 {
                        ru(Broker::<T1>::publish(T1(id)).await)
                    } else {
                        ru(Broker::<T2>::publish(T2(id)).await)
                    }
                }
                B::PubAddr(topic, id) => {
                    if topic == 1 {
                        ru(Broker::<T1>::from_registry().await.publish(T1(id)).await)
                    } else {
                        ru(Broker::<T2>::from_registry().await.publish(T2(id)).await)
                    }
                }
                B::TryPub(topic, id) => {
                    let r = if topic == 1 { Broker::<T1>::try_publish(T1(id)).await } else { Broker::<T2>::try_publish(T2(id)).await };
                    match r {
                        Some(r) => ru(r),
                        None => Res::None,
                    }
                }
                B::PubCtx(s, topic, id) => match subs[s as usize].as_ref() {
                    Some(a) => {
                        let r = a.send(Cmd(6000 + id, Action::Publish { topic, id })).await;
                        let _ = a.ping().await;
                        ru(r)
                    }
                    None => Res::None,
                },
                B::DropSub(s) => {
                    subs[s as usize] = None;
                    Res::Ok
                }
                B::HoldThrough(s, kind) => match subs[s as usize].take() {
                    Some(a) => {
                        if kind == 0 {
                            other_kinds.push(Box::new(a.caller::<crate::world::Ask>()));
                        } else {
                            other_kinds.push(Box::new(a.sender::<crate::world::Note>()));
                        }
                        Res::Ok
                    }
                    None => Res::None,
                },
                B::StopSub(s) => match subs[s as usize].as_mut() {
                    Some(a) => ru(a.stop()),
                    None => Res::None,
                },
                B::RestartSub(s) => match subs[s as usize].as_mut() {
                    Some(a) => {
                        let r = a.restart();
                        let _ = a.ping().await;
                        ru(r)
                    }
                    None => Res::None,
                },
            }
        };
        let r = std::panic::AssertUnwindSafe(fut).catch_unwind().await.unwrap_or(Res::Panicked);
        world::log(Ev::End { c, i, r });
    }
    // hold the remaining handles until everything published has been delivered, then drop
    let i = ops.len() as u16;
    world::log(Ev::Begin { c, i });
    world::sleep(5).await;
    drop(subs);
    drop(other_kinds);
    world::log(Ev::End { c, i, r: Res::Ok });
}

impl Scene for S {
    fn roles(&self) -> Vec<RoleCfg> {
        vec![RoleCfg::default(); self.nsubs as usize + 1]
    }
    fn pre(&self) {
        use futures::FutureExt as _;
        let _ = Addr::<Broker<T1>>::unregister().now_or_never();
        let _ = Addr::<Broker<T2>>::unregister().now_or_never();
        let _ = Addr::<Probe<1>>::unregister().now_or_never();
    }
    fn setup(&self, exec: &Exec) {
        // subscriber s has role s+1; the first client that mentions it holds its only strong handle
        let mut addrs: Vec<Option<Addr<P>>> = (0..self.nsubs).map(|s| Some(spawn_probe(s + 1, SpawnCfg::plain(Mailbox::U)).detach())).collect();
        for (c, prog) in self.programs.iter().enumerate() {
            let mut mine: Vec<Option<Addr<P>>> = vec![None; self.nsubs as usize];
            for op in prog {
                let s = match op {
                    B::Sub(s, _) | B::SubCtx(s, _) | B::Unsub(s, _) | B::PubCtx(s, _, _) | B::DropSub(s) | B::StopSub(s) | B::RestartSub(s) | B::HoldThrough(s, _) => Some(*s),
                    _ => None,
                };
                if let Some(s) = s {
                    if mine[s as usize].is_none() {
                        mine[s as usize] = addrs[s as usize].clone();
                    }
                }
            }
            exec.spawn_client(c as u8, run_b(c as u8, mine, prog.clone()));
        }
        // subscribers nobody mentions keep no strong handle: hold them in a keeper client
        let unmentioned: Vec<Option<Addr<P>>> = addrs
            .iter_mut()
            .enumerate()
            .map(|(s, a)| {
                let mentioned = self.programs.iter().flatten().any(|op| matches!(op, B::Sub(x, _) | B::SubCtx(x, _) | B::Unsub(x, _) | B::PubCtx(x, _, _) | B::DropSub(x) | B::StopSub(x) | B::RestartSub(x) | B::HoldThrough(x, _) if *x as usize == s));
                if mentioned { None } else { a.take() }
            })
            .collect();
        if unmentioned.iter().any(Option::is_some) {
            exec.spawn_client(9, run_b(9, unmentioned, vec![]));
        }
        drop(addrs);
    }

    fn check(&self, t: &Trace) -> Vec<Violation> {
        let an = An::new(t.log);
        let mut out = vec![];
        let mut v = |clause: &'static str, key: String, detail: String| out.push(Violation { clause, key, detail });
        // collect subscribe / unsubscribe / publish operations as intervals
        #[derive(Debug)]
        struct I {
            lo: usize,
            hi: usize,
            done: bool,
        }
        let mut subs: Vec<(u8, u8, I)> = vec![];
        let mut unsubs: Vec<(u8, u8, I)> = vec![];
        let mut pubs: Vec<(u8, u32, I, bool)> = vec![];
        for (c, prog) in self.programs.iter().enumerate() {
            for (i, op) in prog.iter().enumerate() {
                let Some(o) = an.op(c as u8, i as u16) else { continue };
                let iv = I { lo: o.begin, hi: o.end.unwrap_or(usize::MAX), done: o.end.is_some() };
                match *op {
                    B::Sub(s, topic) | B::SubCtx(s, topic) => subs.push((s, topic, iv)),
                    B::Unsub(s, topic) => unsubs.push((s, topic, iv)),
                    B::TryPub(topic, id) if o.res == Some(Res::None) => {
                        // "no broker": right when nothing has brought one up yet - any earlier
                        // subscribe, unsubscribe or publish on the topic has (single-client
                        // programs: nobody else holds the registry lock meanwhile)
                        crate::check::oblige("try-publish");
                        let brought_up = prog[..i].iter().any(|b| matches!(b, B::Sub(_, tp) | B::SubCtx(_, tp) | B::Unsub(_, tp) | B::Pub(tp, _) | B::PubAddr(tp, _) | B::PubCtx(_, tp, _) if *tp == topic));
                        if brought_up && self.programs.len() == 1 {
                            v("publish-ok", "C09/try-publish-missed-the-running-broker".into(), format!("try_publish {id} said there is no broker for topic {topic} although earlier operations of the same client had brought one up"));
                        }
                    }
                    B::TryPub(topic, id) if o.ok() && !prog[..i].iter().any(|b| matches!(b, B::Sub(_, tp) | B::SubCtx(_, tp) | B::Unsub(_, tp) | B::Pub(tp, _) | B::PubAddr(tp, _) | B::PubCtx(_, tp, _) if *tp == topic)) && self.programs.len() == 1 => {
                        v("publish-ok", "C09/try-publish-started-a-broker".into(), format!("try_publish {id} published on topic {topic} although no broker had been brought up"));
                    }
                    B::Pub(topic, id) | B::PubAddr(topic, id) | B::PubCtx(_, topic, id) | B::TryPub(topic, id) => {
                        if o.end.is_none() {
                            v("publish-resolves", "C09/publish-hangs".into(), format!("publish {id} never returned"));
                        } else if !o.ok() {
                            v("publish-ok", "C09/publish-failed".into(), format!("publish {id} returned {:?}", o.res));
                        }
                        pubs.push((topic, id, iv, o.ok()))
                    }
                    _ => {}
                }
            }
        }
        // a failed in-handler publish / subscribe
        for e in t.log {
            if let Ev::Ctx { op: CtxOp::Publish | CtxOp::Subscribe, ok: false, a } = e.ev {
                v("publish-ok", "C09/context-op-failed".into(), format!("Context::publish/subscribe of actor {a} failed"));
            }
        }
        let terminated = |s: u8| an.enters.iter().any(|e| e.a == s + 1 && e.cb == Cb::Stopped) || an.task_of_role(s + 1).and_then(|tk| an.end_of_task(tk)).is_some();
        let settled = t.res.end == crate::vexec::EndReason::Quiescent;
        for (topic, id, piv, pok) in &pubs {
            for s in 0..self.nsubs {
                let got = an.enters.iter().filter(|e| e.a == s + 1 && e.cb == (Cb::Topic { topic: *topic, id: *id })).count();
                if got > 1 {
                    v("at-most-once", "C09/delivered-twice".into(), format!("publication {id} was delivered {got} times to subscriber {s}"));
                }
                let my_subs: Vec<&I> = subs.iter().filter(|(x, tp, _)| *x == s && tp == topic).map(|(_, _, i)| i).collect();
                let my_unsubs: Vec<&I> = unsubs.iter().filter(|(x, tp, _)| *x == s && tp == topic).map(|(_, _, i)| i).collect();
                // must not: never subscribed, or unsubscribed before with no possibly-later subscribe
                let never = my_subs.is_empty();
                let unsub_before = my_unsubs.iter().any(|u| u.done && u.hi < piv.lo && my_subs.iter().all(|r| r.done && r.hi < u.lo));
                if never || unsub_before {
                    crate::check::oblige("not-delivered-to-unsubscribed");
                }
                if (never || unsub_before) && got > 0 {
                    v(
                        "not-delivered-to-unsubscribed",
                        format!("C09/delivered-to-{}", if never { "never-subscribed" } else { "unsubscribed" }),
                        format!("publication {id} (topic {topic}) was delivered to subscriber {s}"),
                    );
                }
                // must: subscribed before, no interfering unsubscribe, subscriber alive throughout
                let subscribed_before = my_subs.iter().any(|r| r.done && r.hi < piv.lo);
                let unsubs_harmless = my_unsubs.iter().all(|u| u.lo > piv.hi || my_subs.iter().any(|r| r.done && r.lo > u.hi && r.hi < piv.lo));
                // (every subscriber terminates at the very end, when the clients let go of their
                // handles at t=5; 'alive' here means: no program drops or stops it earlier)
                let ended_early = self.programs.iter().flatten().any(|op| matches!(op, B::DropSub(x) | B::StopSub(x) if *x == s));
                if *pok && subscribed_before && unsubs_harmless && !ended_early && settled {
                    crate::check::oblige("delivered-to-subscribed");
                }
                if *pok && subscribed_before && unsubs_harmless && !ended_early && settled && got == 0 {
                    v("delivered-to-subscribed", "C09/not-delivered".into(), format!("publication {id} (topic {topic}) was not delivered to subscriber {s} whose subscription had completed before the publish began"));
                }
            }
        }
        // one common order extending every publisher's order
        let order_of = |s: u8, topic: u8| -> Vec<u32> {
            an.enters.iter().filter_map(|e| match e.cb {
                Cb::Topic { topic: tp, id } if e.a == s + 1 && tp == topic => Some(id),
                _ => None,
            }).collect()
        };
        for topic in [1u8, 2] {
            let orders: Vec<Vec<u32>> = (0..self.nsubs).map(|s| order_of(s, topic)).collect();
            for a in 0..orders.len() {
                for b in a + 1..orders.len() {
                    let common_a: Vec<u32> = orders[a].iter().copied().filter(|x| orders[b].contains(x)).collect();
                    let common_b: Vec<u32> = orders[b].iter().copied().filter(|x| orders[a].contains(x)).collect();
                    if common_a.len() >= 2 {
                        crate::check::oblige("common-order");
                    }
                    if common_a != common_b {
                        v("common-order", "C09/subscribers-disagree-on-order".into(), format!("topic {topic}: subscriber {a} saw {:?}, subscriber {b} saw {:?}", orders[a], orders[b]));
                    }
                }
                for (tp, p, piv, _) in &pubs {
                    for (tq, q, qiv, _) in &pubs {
                        if tp == &topic && tq == &topic && piv.hi < qiv.lo {
                            let ip = orders[a].iter().position(|x| x == p);
                            let iq = orders[a].iter().position(|x| x == q);
                            if let (Some(ip), Some(iq)) = (ip, iq) {
                                crate::check::oblige("publisher-order");
                                if ip > iq {
                                    v("publisher-order", "C09/publication-order-reversed".into(), format!("publish {p} returned before publish {q} began, yet subscriber {a} saw {q} first"));
                                }
                            }
                        }
                    }
                }
            }
        }
        // the broker never keeps a subscriber alive: at the end every subscriber has terminated
        if settled {
            crate::check::oblige("broker-does-not-keep-alive");
            for s in 0..self.nsubs {
                if !terminated(s) {
                    v("broker-does-not-keep-alive", "C09/subscriber-alive-at-end".into(), format!("subscriber {s} was still alive after every strong handle had been dropped"));
                }
            }
        }
        out
    }
}

fn push(v: &mut Vec<Case>, nsubs: u8, programs: Vec<Vec<B>>, bound: Option<u32>) {
    let desc = format!(
        "broker subs={nsubs} programs={}",
        programs.iter().map(|p| p.iter().map(|o| format!("{o:?}")).collect::<Vec<_>>().join(",")).collect::<Vec<_>>().join(" | ")
    );
    v.push(Case { desc, exec: ExecCfg { horizon: 20, yield_holding_lock: true, ..ExecCfg::default() }, bound, scene: Box::new(S { nsubs, programs }) });
}

fn base_cases(tier: Tier) -> Vec<Case> {
    let mut v = vec![];
    let q = tier == Tier::Quick;
    let pubs = |id: u32| [B::Pub(1, id), B::PubAddr(1, id), B::PubCtx(1, 1, id)];
    // one client: sequential semantics (all schedules)
    for sub in [B::Sub(0, 1), B::SubCtx(0, 1)] {
        for p in pubs(41) {
            let n = if matches!(p, B::PubCtx(..)) { 2 } else { 1 };
            push(&mut v, n, vec![vec![sub, p]], None);
            push(&mut v, n, vec![vec![sub, sub, p]], None);
            push(&mut v, n, vec![vec![sub, B::Unsub(0, 1), p]], None);
            push(&mut v, n, vec![vec![sub, B::Unsub(0, 1), sub, p]], None);
            push(&mut v, n, vec![vec![sub, p, B::Unsub(0, 1), B::Pub(1, 42)]], None);
            push(&mut v, n, vec![vec![p, sub, B::Pub(1, 42)]], None);
            push(&mut v, n, vec![vec![sub, B::DropSub(0), p]], None);
            // a delivery has happened; the broker still must not keep the subscriber alive
            push(&mut v, n, vec![vec![sub, p, B::DropSub(0)]], None);
            push(&mut v, n, vec![vec![sub, p, B::Pub(1, 42), B::DropSub(0), B::Pub(1, 43)]], None);
            push(&mut v, n, vec![vec![sub, B::StopSub(0), p, B::Pub(1, 42)]], None);
            push(&mut v, n, vec![vec![sub, B::RestartSub(0), p, B::Pub(1, 42)]], None);
            push(&mut v, n, vec![vec![sub, p, B::RestartSub(0), sub, B::Pub(1, 42)]], None);
            // other topic
            push(&mut v, n, vec![vec![sub, B::Pub(2, 43), p]], None);
            push(&mut v, n, vec![vec![B::Sub(0, 2), p]], None);
        }
    }
    // try_publish: a publication when a broker is up, "none" (and no broker) when not
    for sub in [B::Sub(0, 1), B::SubCtx(0, 1)] {
        push(&mut v, 1, vec![vec![sub, B::TryPub(1, 41), B::Pub(1, 42)]], None);
        push(&mut v, 1, vec![vec![B::TryPub(1, 41), sub, B::TryPub(1, 42), B::TryPub(2, 43)]], None);
        push(&mut v, 1, vec![vec![sub, B::Unsub(0, 1), B::TryPub(1, 41), sub, B::TryPub(1, 42)]], None);
        push(&mut v, 2, vec![vec![sub, B::Sub(1, 1), B::DropSub(0), B::TryPub(1, 41), B::TryPub(1, 42)]], None);
    }
    push(&mut v, 1, vec![vec![B::TryPub(1, 41), B::Pub(1, 42), B::TryPub(1, 43)]], None);
    // a subscriber that is kept alive by a Caller or a Sender only is as alive as any: the broker
    // reaches it (its weak sender upgrades), before and after the change of hands
    for sub in [B::Sub(0, 1), B::SubCtx(0, 1)] {
        for kind in [0u8, 1] {
            push(&mut v, 1, vec![vec![sub, B::HoldThrough(0, kind), B::Pub(1, 41), B::PubAddr(1, 42)]], None);
            push(&mut v, 1, vec![vec![sub, B::Pub(1, 41), B::HoldThrough(0, kind), B::Pub(1, 42)]], None);
            push(&mut v, 2, vec![vec![sub, B::Sub(1, 1), B::HoldThrough(0, kind), B::Pub(1, 41), B::DropSub(1), B::Pub(1, 42)]], None);
        }
    }
    // one subscriber leaves and another one joins between two publications (the table has the
    // same size before and after): the first gets nothing more, the newcomer gets the next one
    for p in pubs(42) {
        if matches!(p, B::PubCtx(..)) {
            continue;
        }
        push(&mut v, 3, vec![vec![B::Sub(0, 1), B::Sub(1, 1), B::Pub(1, 41), B::Unsub(0, 1), B::Sub(2, 1), p, B::Pub(1, 43)]], if q { Some(3) } else { None });
        push(&mut v, 3, vec![vec![B::Sub(0, 1), B::Sub(1, 1), B::Pub(1, 41), B::DropSub(0), B::Sub(2, 1), p]], if q { Some(3) } else { None });
    }
    // subscribing again is no second subscription - also when somebody else subscribed in between
    for again in [B::Sub(0, 1), B::SubCtx(0, 1)] {
        push(&mut v, 2, vec![vec![B::Sub(0, 1), B::Sub(1, 1), again, B::Pub(1, 41), B::Pub(1, 42)]], if q { Some(3) } else { None });
        push(&mut v, 3, vec![vec![B::Sub(0, 1), B::Sub(1, 1), B::Sub(2, 1), again, B::Sub(1, 1), B::Pub(1, 41)]], Some(if q { 2 } else { 4 }));
        push(&mut v, 2, vec![vec![B::SubCtx(0, 1), B::Sub(1, 1), B::RestartSub(0), again, B::Pub(1, 41)]], if q { Some(3) } else { None });
    }
    // the order in which actors subscribe is not the order in which they were created: whatever
    // order three of them arrive in, each can subscribe again (still one subscription) and each
    // can leave (and gets nothing more), the others untouched
    for perm in [[0u8, 1, 2], [0, 2, 1], [1, 0, 2], [1, 2, 0], [2, 0, 1], [2, 1, 0]] {
        for k in 0..3u8 {
            let head = vec![B::Sub(perm[0], 1), B::Sub(perm[1], 1), B::Sub(perm[2], 1)];
            let mut again = head.clone();
            again.extend([B::Sub(k, 1), B::Pub(1, 41)]);
            push(&mut v, 3, vec![again], Some(if q { 1 } else { 3 }));
            let mut leave = head.clone();
            leave.extend([B::Unsub(k, 1), B::Pub(1, 41)]);
            push(&mut v, 3, vec![leave], Some(if q { 1 } else { 3 }));
        }
    }
    // two subscribers, one publisher client: same order at both
    for p in pubs(41) {
        push(&mut v, 2, vec![vec![B::Sub(0, 1), B::Sub(1, 1), p, B::Pub(1, 42)]], None);
        push(&mut v, 2, vec![vec![B::Sub(0, 1), p, B::Sub(1, 1), B::Pub(1, 42)]], None);
    }
    // subscribers that are gone for good (their last handle was dropped): the broker prunes them,
    // the others keep getting every publication - the first one after the loss and the later ones
    for p in pubs(41) {
        push(&mut v, 2, vec![vec![B::Sub(0, 1), B::Sub(1, 1), B::DropSub(0), p, B::Pub(1, 42), B::Pub(1, 43)]], if q { Some(3) } else { None });
        push(&mut v, 3, vec![vec![B::Sub(0, 1), B::Sub(1, 1), B::Sub(2, 1), B::DropSub(2), p, B::DropSub(0), B::Pub(1, 42), B::Pub(1, 43)]], if q { Some(3) } else { None });
        // two gone between the same two publications - ahead of, and around, a live one
        if !matches!(p, B::PubCtx(..)) {
            push(&mut v, 3, vec![vec![B::Sub(0, 1), B::Sub(1, 1), B::Sub(2, 1), B::DropSub(0), B::DropSub(1), p, B::Pub(1, 42), B::Pub(1, 43)]], if q { Some(3) } else { None });
        }
        push(&mut v, 3, vec![vec![B::Sub(0, 1), B::Sub(1, 1), B::Sub(2, 1), B::DropSub(0), B::DropSub(2), p, B::Pub(1, 42), B::Pub(1, 43)]], if q { Some(3) } else { None });
    }
    // subscribers that terminated while someone still holds a strong handle to them (the
    // broker cannot prune them): the live ones still get every publication
    for p in pubs(41) {
        let n = 3;
        push(&mut v, n, vec![vec![B::Sub(0, 1), B::Sub(1, 1), B::Sub(2, 1), B::StopSub(0), p, B::Pub(1, 42)]], if q { Some(3) } else { None });
        push(&mut v, n, vec![vec![B::Sub(0, 1), B::Sub(1, 1), B::Sub(2, 1), B::StopSub(0), B::StopSub(2), p, B::Pub(1, 42)]], if q { Some(3) } else { None });
    }
    // two clients: subscriber management racing with publishing
    let b2: Option<u32> = if q { Some(5) } else { None };
    for p in pubs(41) {
        let n = if matches!(p, B::PubCtx(..)) { 2 } else { 1 };
        push(&mut v, n, vec![vec![B::Sub(0, 1), p], vec![B::Pub(1, 42)]], b2);
        push(&mut v, n, vec![vec![B::Sub(0, 1)], vec![p]], None);
        push(&mut v, n, vec![vec![B::Sub(0, 1), p], vec![B::Unsub(0, 1)]], b2);
        push(&mut v, n, vec![vec![B::Sub(0, 1), B::Unsub(0, 1)], vec![p]], b2);
        push(&mut v, n, vec![vec![B::Sub(0, 1), p], vec![B::Sub(0, 1)]], b2);
        push(&mut v, n, vec![vec![B::Sub(0, 1), p], vec![B::DropSub(0)]], b2);
        push(&mut v, n, vec![vec![B::Sub(0, 1), B::StopSub(0)], vec![p, B::Pub(1, 42)]], b2);
        // publishing while the registry is busy with somebody else's first-time lookup (the
        // other topic's broker is spawned on demand, which holds the registry across its start)
        push(&mut v, 2, vec![vec![B::Sub(0, 1), p], vec![B::Sub(1, 2)]], b2);
        push(&mut v, 2, vec![vec![B::Sub(0, 1), p, B::Pub(1, 42)], vec![B::PubAddr(2, 43)]], b2);
    }
    // two subscribers and two publishers: the common order
    let b3 = if q { Some(3) } else { None };
    for p in pubs(41) {
        for r in [B::Pub(1, 42), B::PubAddr(1, 42)] {
            push(&mut v, 2, vec![vec![B::Sub(0, 1), B::Sub(1, 1), p], vec![r]], b3);
            push(&mut v, 2, vec![vec![B::Sub(0, 1), p], vec![B::Sub(1, 1), r]], b3);
            push(&mut v, 2, vec![vec![B::Sub(0, 1), B::Sub(1, 1), p, B::Pub(1, 44)], vec![r, B::Pub(1, 45)]], b3);
        }
    }
    if !q {
        // three subscribers, two topics, three publishers
        for p in pubs(41) {
            push(&mut v, 3, vec![vec![B::Sub(0, 1), B::Sub(1, 1), B::Sub(2, 1), p], vec![B::Pub(1, 42)], vec![B::PubAddr(1, 43)]], Some(3));
            push(&mut v, 3, vec![vec![B::Sub(0, 1), B::Sub(1, 2), B::Sub(2, 1), B::Sub(2, 2), p], vec![B::Pub(2, 42), B::Pub(1, 44)], vec![B::Unsub(2, 1), B::PubAddr(2, 43)]], Some(3));
        }
    }
    v
}

fn cases(tier: Tier) -> Vec<Case> {
    // neutral re-configurations of the subscribers (see check::widen)
    // (a recreated harness actor would take the default role, so restarts stay on the default strategy)
    let no_restart = |d: &str| !d.contains("Restart");
    crate::check::widen(&|| base_cases(tier), &|_| true, &no_restart, Some(&no_restart))
}

pub fn property() -> Property {
    Property {
        id: "C09",
        cases,
        clauses: &["delivered-to-subscribed", "not-delivered-to-unsubscribed", "common-order", "publisher-order", "broker-does-not-keep-alive"],
        full_rerun_check: false,
        assumptions: &[
            "subscriber mailboxes are unbounded, so the broker's fan-out never blocks and its HashMap iteration order (std RandomState, not owned by the harness) cannot influence anything observable; the replay-divergence check guards this",
            "a subscribe made from a handler (Context::subscribe) counts as completed once a following ping to that actor returned",
            "programs with two clients or more are explored with a deviation bound in the quick tier",
        ],
    }
}
