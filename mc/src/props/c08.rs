//! C08: service registry - one live instance per type, spawned on demand, linearizable.
//!
//! Histories of registry operations issued by 1-4 client tasks are explored under all schedules
//! (lock acquisitions are scheduling points). Each complete execution's history - operations
//! with their begin/end positions plus the termination events of instances - is checked by
//! brute force for a linearization against a sequential registry model.

use hannibal::{prelude::*, Addr};

use crate::{
    check::{Case, Property, Scene, Tier, Trace, Violation},
    scenes::block_inline,
    vexec::{Exec, ExecCfg},
    world::{self, errkind, Action, Ask, Cb, Cmd, ErrKind, Ev, Probe, Res, RoleCfg, XEv, W},
};

#[derive(Clone, Copy, Debug, PartialEq, Eq, Hash)]
pub enum ROp {
    FromRegistry,
    Setup,
    /// spawn a fresh instance and `register()` it
    RegisterNew,
    /// spawn a fresh instance and `replace()` with it
    ReplaceNew,
    Unregister,
    TryFromRegistry,
    AlreadyRunning,
    /// `stop()` the instance this client holds (from the initial state or an earlier lookup)
    StopHeld,
    /// make the held instance stop itself (`Context::stop` in a handler)
    SelfStopHeld,
    /// restart the held instance: the registry's view of it does not change
    RestartHeld,
    /// `replace()` with the instance this client holds (possibly the registered one itself)
    ReplaceHeld,
    /// `register()` the instance this client holds
    RegisterHeld,
    /// build a fresh instance and register it through the builder's `register()` terminal
    BuildRegisterNew,
    /// spawn a fresh instance, stop it, wait for its end, and `register()` it all the same:
    /// whether register succeeds depends on what is registered, not on what is being registered
    RegisterNewStopped,
    /// a lookup that is given up after one tick (a timeout or a `select!` around
    /// `from_registry()`): whatever it has published by then stays published
    FromRegistryGiveUp,
}

pub const ALPHABET: [ROp; 10] = [
    ROp::FromRegistry,
    ROp::TryFromRegistry,
    ROp::AlreadyRunning,
    ROp::RegisterNew,
    ROp::Unregister,
    ROp::ReplaceNew,
    ROp::StopHeld,
    ROp::SelfStopHeld,
    ROp::Setup,
    ROp::RestartHeld,
];

/// identity of the instance behind an address: who answers a call (None: nobody any more)
async fn ident<const K: u8>(a: &Addr<Probe<K>>) -> Option<u16> {
    a.call(Ask(9000)).await.ok().map(|r| r.inst)
}

pub async fn reg_op<const K: u8>(held: &mut Option<Addr<Probe<K>>>, op: ROp) -> Res {
    let role = K;
    match op {
        ROp::FromRegistry => {
            let a = Probe::<K>::from_registry().await;
            let id = ident(&a).await;
            *held = Some(a);
            Res::Reg { present: true, ident: id }
        }
        ROp::FromRegistryGiveUp => {
            let lookup = Box::pin(Probe::<K>::from_registry());
            match futures::future::select(lookup, Box::pin(world::sleep(1))).await {
                futures::future::Either::Left((a, _)) => {
                    let id = ident(&a).await;
                    *held = Some(a);
                    Res::Reg { present: true, ident: id }
                }
                futures::future::Either::Right((_, lookup)) => {
                    drop(lookup);
                    Res::Err(ErrKind::Timeout)
                }
            }
        }
        ROp::Setup => match Probe::<K>::setup().await {
            Ok(()) => Res::Ok,
            Err(_) => Res::Err(ErrKind::NotFound),
        },
        ROp::RegisterNewStopped => {
            let fresh = Probe::<K>::new(role);
            let inst = fresh.inst;
            let mut addr = fresh.spawn();
            let _ = addr.stop();
            let _ = addr.clone().await;
            match addr.register().await {
                Ok((me, replaced)) => {
                    *held = Some(me);
                    Res::Registered { new: inst, replaced: replaced.is_some() }
                }
                Err(e) => Res::Err(errkind(&e)),
            }
        }
        ROp::RegisterNew => {
            let fresh = Probe::<K>::new(role);
            let inst = fresh.inst;
            let addr = fresh.spawn();
            match addr.register().await {
                Ok((me, replaced)) => {
                    *held = Some(me);
                    Res::Registered { new: inst, replaced: replaced.is_some() }
                }
                Err(e) => Res::Err(errkind(&e)),
            }
        }
        ROp::BuildRegisterNew => {
            let fresh = Probe::<K>::new(role);
            let inst = fresh.inst;
            match hannibal::build(fresh).unbounded().register().await {
                Ok((me, replaced)) => {
                    *held = Some(me);
                    Res::Registered { new: inst, replaced: replaced.is_some() }
                }
                Err(e) => Res::Err(errkind(&e)),
            }
        }
        ROp::ReplaceNew => {
            let fresh = Probe::<K>::new(role);
            let addr = fresh.spawn();
            let prev = addr.clone().replace().await;
            *held = Some(addr);
            match prev {
                Some(p) => Res::Reg { present: true, ident: ident(&p).await },
                None => Res::Reg { present: false, ident: None },
            }
        }
        ROp::Unregister => match Addr::<Probe<K>>::unregister().await {
            Some(p) => Res::Reg { present: true, ident: ident(&p).await },
            None => Res::Reg { present: false, ident: None },
        },
        ROp::TryFromRegistry => match Probe::<K>::try_from_registry() {
            Some(a) => {
                let id = ident(&a).await;
                *held = Some(a);
                Res::Reg { present: true, ident: id }
            }
            None => Res::Reg { present: false, ident: None },
        },
        ROp::AlreadyRunning => Res::OptBool(Probe::<K>::already_running().await),
        ROp::StopHeld => match held.as_mut() {
            Some(a) => match a.stop() {
                Ok(()) => Res::Ok,
                Err(e) => Res::Err(errkind(&e)),
            },
            None => Res::None,
        },
        ROp::ReplaceHeld => match held.as_ref() {
            // (programs use it on a live held instance: its identity is part of the result)
            Some(a) => match ident(a).await {
                Some(me) => Res::Registered { new: me, replaced: a.clone().replace().await.is_some() },
                None => Res::None,
            },
            None => Res::None,
        },
        ROp::RegisterHeld => match held.as_ref() {
            Some(a) => match ident(a).await {
                Some(me) => match a.clone().register().await {
                    Ok((_, replaced)) => Res::Registered { new: me, replaced: replaced.is_some() },
                    Err(e) => Res::Err(errkind(&e)),
                },
                None => Res::None,
            },
            None => Res::None,
        },
        ROp::RestartHeld => match held.as_mut() {
            Some(a) => match a.restart() {
                Ok(()) => Res::Ok,
                Err(e) => Res::Err(errkind(&e)),
            },
            None => Res::None,
        },
        ROp::SelfStopHeld => match held.as_ref() {
            Some(a) => match a.send(Cmd(9100, Action::Stop)).await {
                Ok(()) => Res::Ok,
                Err(e) => Res::Err(errkind(&e)),
            },
            None => Res::None,
        },
    }
}

async fn run_reg_client(c: u8, mut held1: Option<Addr<Probe<1>>>, mut held2: Option<Addr<Probe<2>>>, ops: Vec<(u8, ROp)>) {
    use futures::FutureExt as _;
    for (i, (k, op)) in ops.iter().enumerate() {
        let i = i as u16;
        world::log(Ev::Begin { c, i });
        let r = if *k == 1 {
            std::panic::AssertUnwindSafe(reg_op::<1>(&mut held1, *op)).catch_unwind().await
        } else {
            std::panic::AssertUnwindSafe(reg_op::<2>(&mut held2, *op)).catch_unwind().await
        };
        world::log(Ev::End { c, i, r: r.unwrap_or(Res::Panicked) });
    }
    let i = ops.len() as u16;
    world::log(Ev::Begin { c, i });
    drop(held1);
    drop(held2);
    world::log(Ev::End { c, i, r: Res::Ok });
}

pub fn registry_hygiene() {
    // no backend installed here: the lock shim does not yield and the lock is free
    use futures::FutureExt as _;
    let _ = Addr::<Probe<1>>::unregister().now_or_never();
    let _ = Addr::<Probe<2>>::unregister().now_or_never();
}

/// The initial "a live instance of type 1 is registered" state: a default instance is spawned
/// and registered. (Not through from_registry: with debug assertions on - or after a change to
/// the library - that awaits a ping of the fresh instance, which cannot complete inside scene
/// setup, where no task runs.)
fn preregister() -> Addr<Probe<1>> {
    block_inline(Probe::<1>::default().spawn().register()).expect("register on an empty registry").0
}

struct S {
    /// per client: (service type, op)
    programs: Vec<Vec<(u8, ROp)>>,
    /// service type 1 has a registered live instance initially, held by every client
    preregistered: bool,
    /// the first instance of type 1 that starts fails in started() (whichever it is: the one
    /// spawned on demand or one a client registers); later ones start fine
    first_start_fails: bool,
    /// the services' stopped() hook gives way twice: there is a while between "asked to stop" and
    /// "gone", during which the instance is what it was - registered and not yet terminated
    slow_stop: bool,
    /// the services' started() hook takes two ticks: a lookup that spawns one is kept waiting
    /// (on the build with debug assertions, which pings the fresh instance before it returns)
    slow_start: bool,
}

impl Scene for S {
    fn roles(&self) -> Vec<RoleCfg> {
        let mut r = vec![RoleCfg::default(), RoleCfg::default(), RoleCfg::default()];
        if self.first_start_fails {
            r[1].started = vec![crate::world::StartBeh::Err];
        }
        if self.slow_stop {
            for x in r.iter_mut() {
                x.stopped_yields = 2;
            }
        }
        if self.slow_start {
            for x in r.iter_mut() {
                x.started_sleep = 2;
            }
        }
        r
    }
    fn pre(&self) {
        registry_hygiene();
    }
    fn setup(&self, exec: &Exec) {
        W.with(|w| {
            let mut w = w.borrow_mut();
            w.default_role[1] = 1;
            w.default_role[2] = 2;
        });
        let pre: Option<Addr<Probe<1>>> = if self.preregistered {
            Some(preregister())
        } else {
            None
        };
        for (c, p) in self.programs.iter().enumerate() {
            exec.spawn_client(c as u8, run_reg_client(c as u8, pre.clone(), None, p.clone()));
        }
    }
    fn check(&self, t: &Trace) -> Vec<Violation> {
        check_history(t, &self.programs, "C08")
    }
}

// ------------------------------------------------------------------ services that use services

/// Service type 1 looks up service type 2 in its `started()` (a service that depends on another
/// one). Lookups of either type, from any number of clients, still return, every type still has
/// exactly one instance, and the dependent lookup itself succeeded.
struct Nested {
    programs: Vec<Vec<(u8, ROp)>>,
}

impl Scene for Nested {
    fn roles(&self) -> Vec<RoleCfg> {
        let mut r = vec![RoleCfg::default(), RoleCfg::default(), RoleCfg::default()];
        r[1].started_actions = vec![Action::LookupService { k: 2 }];
        r
    }
    fn pre(&self) {
        registry_hygiene();
    }
    fn setup(&self, exec: &Exec) {
        W.with(|w| {
            let mut w = w.borrow_mut();
            w.default_role[1] = 1;
            w.default_role[2] = 2;
        });
        for (c, p) in self.programs.iter().enumerate() {
            exec.spawn_client(c as u8, run_reg_client(c as u8, None, None, p.clone()));
        }
    }
    fn check(&self, t: &Trace) -> Vec<Violation> {
        let an = crate::trace::An::new(t.log);
        let mut out = vec![];
        for (c, prog) in self.programs.iter().enumerate() {
            for (i, (k, op)) in prog.iter().enumerate() {
                let Some(o) = an.op(c as u8, i as u16) else { continue };
                crate::check::oblige("registry-op-resolves");
                match o.res {
                    None => out.push(Violation {
                        clause: "registry-op-resolves",
                        key: format!("C08/registry-op-hangs/{op:?}/service-started-by-a-service"),
                        detail: format!("client {c} op {i} ({op:?}<{k}>) never returned; service 1 looks up service 2 in its started()"),
                    }),
                    Some(Res::Reg { present: true, ident: Some(_) }) | Some(Res::Ok) => {}
                    // the non-spawning queries may come before anything is registered
                    Some(_) if matches!(op, ROp::TryFromRegistry | ROp::AlreadyRunning) => {}
                    Some(r) => out.push(Violation {
                        clause: "one-live-instance",
                        key: format!("C08/nested-lookup-result/{op:?}"),
                        detail: format!("client {c} op {i} ({op:?}<{k}>) returned {r:?}; expected the live instance"),
                    }),
                }
            }
        }
        if t.res.end == crate::vexec::EndReason::Quiescent && out.is_empty() {
            for k in [1u8, 2] {
                let made = t.log.iter().filter(|e| matches!(e.ev, Ev::New { a, .. } if a == k)).count();
                let wanted = self.programs.iter().flatten().any(|(kk, _)| *kk == k) || k == 2;
                if made != usize::from(wanted) {
                    out.push(Violation {
                        clause: "one-live-instance",
                        key: format!("C08/nested-lookup-instances/type={k}"),
                        detail: format!("{made} instances of service type {k} were created; expected {}", usize::from(wanted)),
                    });
                }
            }
            if !t.log.iter().any(|e| matches!(e.ev, Ev::Ctx { a: 1, op: crate::world::CtxOp::Lookup, ok: true })) {
                out.push(Violation {
                    clause: "one-live-instance",
                    key: "C08/nested-lookup-failed".into(),
                    detail: "service 1's lookup of service 2 from started() did not yield a live instance".into(),
                });
            }
        }
        out
    }
}

fn nested_cases(tier: Tier) -> Vec<Case> {
    let f = |k: u8| (k, ROp::FromRegistry);
    let progs: Vec<Vec<Vec<(u8, ROp)>>> = vec![
        vec![vec![f(1)]],
        vec![vec![(1, ROp::Setup), f(1)]],
        vec![vec![f(1), f(2)]],
        vec![vec![f(2), f(1)]],
        vec![vec![f(1)], vec![f(1)]],
        vec![vec![f(1)], vec![f(2)]],
        vec![vec![f(1)], vec![f(2)], vec![f(1)]],
        vec![vec![f(1), (2, ROp::TryFromRegistry)], vec![(2, ROp::AlreadyRunning), f(2)]],
    ];
    progs
        .into_iter()
        .map(|p| Case {
            desc: format!("registry [service 1 looks up service 2 in started()] programs={}", p.iter().map(|c| c.iter().map(|(k, o)| format!("{o:?}<{k}>")).collect::<Vec<_>>().join(",")).collect::<Vec<_>>().join(" | ")),
            exec: ExecCfg { horizon: 30, yield_holding_lock: true, ..ExecCfg::default() },
            bound: if p.len() >= 3 { Some(if tier == Tier::Quick { 4 } else { 6 }) } else { None },
            scene: Box::new(Nested { programs: p }),
        })
        .collect()
}

// ------------------------------------------------------------------ history + linearizability

#[derive(Clone, Debug)]
struct HEvent {
    /// positions in the log
    lo: usize,
    hi: usize,
    kind: HKind,
}

#[derive(Clone, Debug)]
enum HKind {
    Op { k: u8, op: ROp, res: Res, spawned: Option<u16>, concurrent: bool, resolved: bool },
    /// an instance of type k terminated
    Term { k: u8, inst: u16 },
}

#[derive(Clone, PartialEq, Eq, Hash, Debug)]
struct Model {
    entry: [Option<u16>; 3],
    dead: Vec<u16>,
}

impl Model {
    fn alive(&self, inst: u16) -> bool {
        !self.dead.contains(&inst)
    }
}

/// Applies event `e` to the model; None = the observed result contradicts the model.
fn apply(m: &Model, e: &HEvent, hold_probe: &dyn Fn(u16, usize) -> bool) -> Option<Model> {
    let mut n = m.clone();
    match &e.kind {
        HKind::Term { inst, .. } => {
            n.dead.push(*inst);
            n.dead.sort_unstable();
            Some(n)
        }
        HKind::Op { k, op, res, spawned, concurrent, resolved } => {
            let k = *k as usize;
            if !resolved {
                // an unresolved operation is reported by its own clause; it constrains nothing
                return Some(n);
            }
            // identity check helper: observed ident (None = dead) vs predicted instance
            let ident_ok = |pred: u16, ident: Option<u16>| match ident {
                Some(i) => i == pred,
                // nobody answered: the predicted instance must have terminated before the
                // identity call returned
                None => hold_probe(pred, e.hi),
            };
            match op {
                ROp::FromRegistryGiveUp if matches!(res, Res::Err(ErrKind::Timeout)) => {
                    // given up half-way: if it got as far as spawning an instance, that instance
                    // is the registered one from then on (nobody unregistered it)
                    if let Some(s) = *spawned {
                        if matches!(n.entry[k], Some(x) if n.alive(x)) {
                            return None;
                        }
                        n.entry[k] = Some(s);
                    }
                    Some(n)
                }
                ROp::FromRegistry | ROp::Setup | ROp::FromRegistryGiveUp => {
                    let pred = match n.entry[k] {
                        Some(x) if n.alive(x) => {
                            if spawned.is_some() {
                                return None;
                            }
                            x
                        }
                        _ => {
                            let s = (*spawned)?;
                            n.entry[k] = Some(s);
                            s
                        }
                    };
                    match (op, res) {
                        (ROp::Setup, Res::Ok) => Some(n),
                        (ROp::FromRegistry | ROp::FromRegistryGiveUp, Res::Reg { present: true, ident }) if ident_ok(pred, *ident) => Some(n),
                        _ => None,
                    }
                }
                ROp::RegisterNew | ROp::BuildRegisterNew | ROp::RegisterNewStopped => {
                    // (the builder's terminal may refuse before it spawns anything: then there is
                    // no new instance to account for)
                    let Some(s) = *spawned else {
                        return match n.entry[k] {
                            Some(x) if n.alive(x) => matches!(res, Res::Err(ErrKind::StillRunning)).then_some(n),
                            _ => None,
                        };
                    };
                    match n.entry[k] {
                        Some(x) if n.alive(x) => matches!(res, Res::Err(ErrKind::StillRunning)).then_some(n),
                        prev => {
                            n.entry[k] = Some(s);
                            matches!(res, Res::Registered { new, replaced } if *new == s && *replaced == prev.is_some()).then_some(n)
                        }
                    }
                }
                ROp::ReplaceNew => {
                    let s = (*spawned)?;
                    let prev = n.entry[k];
                    n.entry[k] = Some(s);
                    match (prev, res) {
                        (None, Res::Reg { present: false, .. }) => Some(n),
                        (Some(p), Res::Reg { present: true, ident }) if ident_ok(p, *ident) => Some(n),
                        _ => None,
                    }
                }
                ROp::Unregister => {
                    let prev = n.entry[k];
                    n.entry[k] = None;
                    match (prev, res) {
                        (None, Res::Reg { present: false, .. }) => Some(n),
                        (Some(p), Res::Reg { present: true, ident }) if ident_ok(p, *ident) => Some(n),
                        _ => None,
                    }
                }
                ROp::TryFromRegistry => match (n.entry[k], res) {
                    (Some(x), Res::Reg { present: true, ident }) if n.alive(x) && ident_ok(x, *ident) => Some(n),
                    (Some(x), Res::Reg { present: false, .. }) if n.alive(x) => concurrent.then_some(n),
                    (Some(_), Res::Reg { present: false, .. }) => Some(n),
                    (None, Res::Reg { present: false, .. }) => Some(n),
                    _ => None,
                },
                ROp::AlreadyRunning => {
                    let pred = n.entry[k].map(|x| n.alive(x));
                    matches!(res, Res::OptBool(b) if *b == pred).then_some(n)
                }
                ROp::StopHeld | ROp::SelfStopHeld | ROp::RestartHeld => Some(n),
                ROp::ReplaceHeld => match res {
                    // replace returns the previous entry - also when it is the very instance
                    // that is put in
                    Res::Registered { new, replaced } => {
                        let prev = n.entry[k];
                        n.entry[k] = Some(*new);
                        (*replaced == prev.is_some()).then_some(n)
                    }
                    // the held instance had gone: the program did not mean that, nothing to check
                    _ => Some(n),
                },
                ROp::RegisterHeld => match (n.entry[k], res) {
                    (Some(x), Res::Err(ErrKind::StillRunning)) if n.alive(x) => Some(n),
                    (Some(x), _) if n.alive(x) => None,
                    (prev, Res::Registered { new, replaced }) => {
                        n.entry[k] = Some(*new);
                        (*replaced == prev.is_some()).then_some(n)
                    }
                    (_, Res::None) => Some(n),
                    _ => None,
                },
            }
        }
    }
}

pub fn check_history(t: &Trace, programs: &[Vec<(u8, ROp)>], pid: &str) -> Vec<Violation> {
    let mut out = vec![];
    // instance -> (type, task) from New / Enter(Started); termination = End of that task
    let mut inst_role: Vec<(u16, u8)> = vec![];
    let mut inst_task: Vec<(u16, u32)> = vec![];
    let mut started_count = [0u32; 3];
    for e in t.log {
        match e.ev {
            Ev::New { a, inst } => inst_role.push((inst, a)),
            Ev::Enter { a, inst, cb: Cb::Started, .. } => {
                inst_task.push((inst, e.task));
                if (a as usize) < 3 {
                    started_count[a as usize] += 1;
                }
            }
            _ => {}
        }
    }
    let mut events: Vec<HEvent> = vec![];
    for (idx, e) in t.log.iter().enumerate() {
        if let Ev::X(XEv::End { task, .. }) = e.ev {
            if let Some((inst, _)) = inst_task.iter().find(|(_, tk)| *tk == task) {
                let k = inst_role.iter().find(|(i, _)| i == inst).map(|(_, r)| *r).unwrap_or(0);
                events.push(HEvent { lo: idx, hi: idx, kind: HKind::Term { k, inst: *inst } });
            }
        }
    }
    // operations
    let mut unresolved = vec![];
    for (c, prog) in programs.iter().enumerate() {
        for (i, (k, op)) in prog.iter().enumerate() {
            let b = t.log.iter().position(|e| matches!(e.ev, Ev::Begin { c: cc, i: ii } if cc as usize == c && ii as usize == i));
            let Some(b) = b else { continue };
            let end = t.log.iter().enumerate().find_map(|(idx, e)| match e.ev {
                Ev::End { c: cc, i: ii, r } if cc as usize == c && ii as usize == i => Some((idx, r)),
                _ => None,
            });
            let client_task = t.log[b].task;
            let (hi, res, resolved) = match end {
                Some((idx, r)) => (idx, r, true),
                None => {
                    unresolved.push((c, i, *op));
                    (t.log.len(), Res::None, false)
                }
            };
            let spawned = t.log[b..hi.min(t.log.len())].iter().find_map(|e| match e.ev {
                Ev::New { inst, .. } if e.task == client_task => Some(inst),
                _ => None,
            });
            events.push(HEvent {
                lo: b,
                hi,
                kind: HKind::Op { k: *k, op: *op, res, spawned, concurrent: false, resolved },
            });
        }
    }
    // mark operations that overlap another registry operation
    let spans: Vec<(usize, usize, bool)> = events.iter().map(|e| (e.lo, e.hi, matches!(e.kind, HKind::Op { .. }))).collect();
    for (i, e) in events.iter_mut().enumerate() {
        if let HKind::Op { concurrent, .. } = &mut e.kind {
            *concurrent = spans.iter().enumerate().any(|(j, (lo, hi, is_op))| j != i && *is_op && *lo < e.hi && e.lo < *hi);
        }
    }
    for (c, i, op) in &unresolved {
        out.push(Violation {
            clause: "registry-op-resolves",
            key: format!("{pid}/registry-op-hangs/{op:?}"),
            detail: format!("client {c} op {i} ({op:?}) never returned"),
        });
    }
    // initial model: instances created during setup (no running task) and registered
    let mut init = Model { entry: [None; 3], dead: vec![] };
    for e in t.log {
        if let Ev::New { a, inst } = e.ev {
            if e.task == u32::MAX && (a as usize) < 3 {
                init.entry[a as usize] = Some(inst);
            }
        }
    }
    // "pred terminated before position hi"
    let term_pos: Vec<(u16, usize)> = events
        .iter()
        .filter_map(|e| match e.kind {
            HKind::Term { inst, .. } => Some((inst, e.lo)),
            _ => None,
        })
        .collect();
    let hold_probe = |inst: u16, hi: usize| term_pos.iter().any(|(i, p)| *i == inst && *p < hi);

    // brute-force search for a linearization
    let n = events.len();
    if n > 24 {
        return out;
    }
    let mut seen: std::collections::HashSet<(u32, Model)> = std::collections::HashSet::new();
    fn search(
        placed: u32,
        m: &Model,
        events: &[HEvent],
        seen: &mut std::collections::HashSet<(u32, Model)>,
        hold_probe: &dyn Fn(u16, usize) -> bool,
    ) -> bool {
        let n = events.len();
        if placed.count_ones() as usize == n {
            return true;
        }
        if !seen.insert((placed, m.clone())) {
            return false;
        }
        for i in 0..n {
            if placed & (1 << i) != 0 {
                continue;
            }
            // all events that must precede i are placed
            let ok = (0..n).all(|j| j == i || placed & (1 << j) != 0 || !(events[j].hi < events[i].lo));
            if !ok {
                continue;
            }
            if let Some(m2) = apply(m, &events[i], hold_probe) {
                if search(placed | (1 << i), &m2, events, seen, hold_probe) {
                    return true;
                }
            }
        }
        false
    }
    crate::check::oblige("registry-linearizable");
    if events.iter().filter(|e| matches!(e.kind, HKind::Op { concurrent: true, .. })).count() >= 2 {
        crate::check::oblige("registry-linearizable-concurrent-history");
    }
    if events.iter().any(|e| matches!(e.kind, HKind::Term { .. })) {
        crate::check::oblige("registry-history-with-termination");
    }
    if !search(0, &init, &events, &mut seen, &hold_probe) {
        // name the operations involved for the key: the multiset of op kinds with results
        let mut kinds: Vec<String> = events
            .iter()
            .filter_map(|e| match &e.kind {
                HKind::Op { op, .. } => Some(format!("{op:?}")),
                _ => None,
            })
            .collect();
        kinds.sort();
        kinds.dedup();
        let detail = events
            .iter()
            .map(|e| match &e.kind {
                HKind::Op { k, op, res, spawned, .. } => format!("[{}..{}] {op:?}<{k}> -> {res:?} spawned={spawned:?}", e.lo, e.hi),
                HKind::Term { k, inst } => format!("[{}] instance {inst}<{k}> terminated", e.lo),
            })
            .collect::<Vec<_>>()
            .join("; ");
        out.push(Violation {
            clause: "registry-linearizable",
            key: format!("{pid}/not-linearizable/ops={}", kinds.join("+")),
            detail: format!("no linearization against the sequential registry model: {detail}"),
        });
    }
    out
}

// ------------------------------------------------------------------ cases

fn spawns(op: ROp) -> bool {
    matches!(op, ROp::RegisterNew | ROp::ReplaceNew | ROp::RegisterNewStopped)
}

thread_local! {
    static SLOW_STOP: std::cell::Cell<bool> = const { std::cell::Cell::new(false) };
    static SLOW_START: std::cell::Cell<bool> = const { std::cell::Cell::new(false) };
}

fn push_case(v: &mut Vec<Case>, programs: Vec<Vec<(u8, ROp)>>, preregistered: bool, bound: Option<u32>) {
    let desc = format!(
        "registry{} pre={} programs={}",
        if SLOW_STOP.with(|x| x.get()) { " [stopped() takes a while]" } else if SLOW_START.with(|x| x.get()) { " [started() takes a while]" } else { "" },
        preregistered,
        programs
            .iter()
            .map(|p| p.iter().map(|(k, o)| format!("{o:?}{k}")).collect::<Vec<_>>().join(","))
            .collect::<Vec<_>>()
            .join(" | ")
    );
    // the holder of the registry lock is suspended once while holding it (other tasks run
    // meanwhile, as on a multi-threaded runtime) in the two-client one-op histories and in the
    // two-type histories; the longer histories keep lock acquisition atomic with its use
    let holding = (programs.len() == 2 && programs.iter().all(|p| p.len() == 1)) || programs.iter().flatten().any(|(k, _)| *k == 2);
    v.push(Case {
        desc,
        exec: ExecCfg { yield_holding_lock: holding, ..ExecCfg::default() },
        bound,
        scene: Box::new(S { programs, preregistered, first_start_fails: false, slow_stop: SLOW_STOP.with(|x| x.get()), slow_start: SLOW_START.with(|x| x.get()) }),
    });
}

fn needs_held(op: ROp) -> bool {
    matches!(op, ROp::StopHeld | ROp::SelfStopHeld | ROp::RestartHeld | ROp::ReplaceHeld | ROp::RegisterHeld)
}

fn cases(tier: Tier) -> Vec<Case> {
    let mut v = nested_cases(tier);
    let a = &ALPHABET;
    for pre in [false, true] {
        // one client, two ops (sequential semantics incl. stop then lookup)
        for &x in a {
            for &y in a {
                if !pre && needs_held(x) {
                    continue;
                }
                push_case(&mut v, vec![vec![(1, x), (1, y)]], pre, None);
            }
        }
        // two clients, one op each
        for (i, &x) in a.iter().enumerate() {
            for &y in &a[i..] {
                if !pre && (needs_held(x) || needs_held(y)) {
                    continue;
                }
                push_case(&mut v, vec![vec![(1, x)], vec![(1, y)]], pre, None);
            }
        }
        // (the debug-assertions build repeats the short histories only in its quick tier: every
        // on-demand spawn there is followed by a ping, which multiplies the schedules)
        if cfg!(debug_assertions) && tier == Tier::Quick {
            continue;
        }
        // two clients, [2,1]
        for &x in a {
            for &y in a {
                for &z in a {
                    if !pre && (needs_held(x) || needs_held(z)) {
                        continue;
                    }
                    if x == ROp::Setup || y == ROp::Setup || z == ROp::Setup {
                        continue; // Setup == FromRegistry without the handle; covered above
                    }
                    let heavy = [x, y, z].iter().filter(|o| spawns(**o)).count() >= 2;
                    push_case(&mut v, vec![vec![(1, x), (1, y)], vec![(1, z)]], pre, if heavy && tier == Tier::Quick { Some(4) } else { None });
                }
            }
        }
        // three clients, one op each (multisets)
        for (i, &x) in a.iter().enumerate() {
            for (j, &y) in a.iter().enumerate().skip(i) {
                for &z in &a[j..] {
                    if !pre && (needs_held(x) || needs_held(y) || needs_held(z)) {
                        continue;
                    }
                    if x == ROp::Setup || y == ROp::Setup || z == ROp::Setup {
                        continue;
                    }
                    let heavy = [x, y, z].iter().filter(|o| spawns(**o)).count() >= 2;
                    push_case(&mut v, vec![vec![(1, x)], vec![(1, y)], vec![(1, z)]], pre, if heavy && tier == Tier::Quick { Some(4) } else { None });
                }
            }
        }
    }
    // the first instance to start fails in started(): a lookup that meets a failed instance never
    // disturbs a live one that somebody else registered meanwhile. (Release semantics only: with
    // debug assertions on, from_registry's debug_assert!(ping) panics in the caller by design.)
    if !cfg!(debug_assertions) {
        let f = (1u8, ROp::FromRegistry);
        let progs: Vec<Vec<Vec<(u8, ROp)>>> = vec![
            vec![vec![f, f]],
            vec![vec![f, (1, ROp::AlreadyRunning), f]],
            vec![vec![f], vec![f]],
            vec![vec![f], vec![(1, ROp::ReplaceNew)]],
            vec![vec![f], vec![(1, ROp::RegisterNew)]],
            vec![vec![f, (1, ROp::AlreadyRunning)], vec![(1, ROp::ReplaceNew), (1, ROp::TryFromRegistry)]],
            vec![vec![f, (1, ROp::TryFromRegistry)], vec![(1, ROp::RegisterNew), (1, ROp::AlreadyRunning)]],
            vec![vec![f], vec![(1, ROp::ReplaceNew)], vec![(1, ROp::AlreadyRunning)]],
            vec![vec![(1, ROp::Setup), f], vec![(1, ROp::ReplaceNew)]],
        ];
        for p in progs {
            let desc = format!("registry [first start of the type fails] programs={}", p.iter().map(|c| c.iter().map(|(k, o)| format!("{o:?}{k}")).collect::<Vec<_>>().join(",")).collect::<Vec<_>>().join(" | "));
            let bound = if p.len() >= 3 { Some(if tier == Tier::Quick { 4 } else { 6 }) } else { None };
            v.push(Case { desc, exec: ExecCfg { yield_holding_lock: true, ..ExecCfg::default() }, bound, scene: Box::new(S { programs: p, preregistered: false, first_start_fails: true, slow_stop: false, slow_start: false }) });
        }
    }
    // the builder's register() terminal: like register(), it succeeds exactly when no live
    // instance is registered - in particular over a terminated one
    {
        let br = (1u8, ROp::BuildRegisterNew);
        let progs: Vec<(bool, Vec<Vec<(u8, ROp)>>)> = vec![
            (false, vec![vec![br, (1, ROp::AlreadyRunning), br]]),
            (true, vec![vec![br, (1, ROp::StopHeld), br, (1, ROp::TryFromRegistry)]]),
            (true, vec![vec![(1, ROp::StopHeld), br, (1, ROp::AlreadyRunning)]]),
            (true, vec![vec![(1, ROp::SelfStopHeld)], vec![br, (1, ROp::AlreadyRunning)]]),
            (false, vec![vec![br], vec![br]]),
            (false, vec![vec![br], vec![(1, ROp::FromRegistry)]]),
        ];
        for (pre, p) in progs {
            push_case(&mut v, p, pre, None);
        }
    }
    // replace / register with an instance the client already holds - possibly the registered one
    {
        let f = (1u8, ROp::FromRegistry);
        let progs: Vec<Vec<Vec<(u8, ROp)>>> = vec![
            vec![vec![f, (1, ROp::ReplaceHeld), (1, ROp::TryFromRegistry)]],
            vec![vec![f, (1, ROp::ReplaceHeld), (1, ROp::ReplaceHeld)]],
            vec![vec![f, (1, ROp::Unregister), (1, ROp::ReplaceHeld), (1, ROp::AlreadyRunning)]],
            vec![vec![f, (1, ROp::RegisterHeld)]],
            vec![vec![f, (1, ROp::Unregister), (1, ROp::RegisterHeld), (1, ROp::RegisterHeld)]],
            vec![vec![(1, ROp::RegisterNew), (1, ROp::ReplaceHeld)], vec![f]],
            vec![vec![f, (1, ROp::ReplaceHeld)], vec![(1, ROp::ReplaceNew)]],
            vec![vec![f, (1, ROp::ReplaceHeld)], vec![f, (1, ROp::ReplaceHeld)]],
        ];
        for p in progs {
            push_case(&mut v, p, false, None);
        }
    }
    // a service whose stopped() hook takes a while: between the stop request and the end of its
    // task it is still the registered, running instance
    SLOW_STOP.with(|x| x.set(true));
    {
        let f = (1u8, ROp::FromRegistry);
        let progs: Vec<Vec<Vec<(u8, ROp)>>> = vec![
            vec![vec![f, (1, ROp::StopHeld), (1, ROp::AlreadyRunning)], vec![f]],
            vec![vec![f, (1, ROp::StopHeld)], vec![(1, ROp::TryFromRegistry), (1, ROp::AlreadyRunning)]],
            vec![vec![f, (1, ROp::SelfStopHeld)], vec![f, (1, ROp::AlreadyRunning)]],
            vec![vec![f, (1, ROp::StopHeld)], vec![(1, ROp::RegisterNew)]],
            vec![vec![f, (1, ROp::StopHeld)], vec![(1, ROp::Setup), (1, ROp::TryFromRegistry)]],
        ];
        for p in progs {
            push_case(&mut v, p, false, None);
        }
    }
    SLOW_STOP.with(|x| x.set(false));
    // lookups that are given up half-way (a timeout around from_registry()), next to lookups that
    // are not; with a started() hook that takes a while the build with debug assertions keeps a
    // spawning lookup waiting for its ping - long enough to be given up
    for slow in [false, true] {
        SLOW_START.with(|x| x.set(slow));
        let f = (1u8, ROp::FromRegistry);
        let g = (1u8, ROp::FromRegistryGiveUp);
        let progs: Vec<Vec<Vec<(u8, ROp)>>> = vec![
            vec![vec![g, f]],
            vec![vec![g, (1, ROp::TryFromRegistry), (1, ROp::AlreadyRunning)]],
            vec![vec![g, f], vec![f]],
            vec![vec![g], vec![f, f]],
            vec![vec![g, (1, ROp::AlreadyRunning)], vec![f, (1, ROp::TryFromRegistry)]],
            vec![vec![g, f], vec![g, f]],
            vec![vec![g, (1, ROp::Setup)], vec![(1, ROp::TryFromRegistry), f]],
        ];
        for p in progs {
            push_case(&mut v, p, false, None);
        }
    }
    SLOW_START.with(|x| x.set(false));
    // registering an instance that has already ended: what counts is what the registry holds
    {
        let f = (1u8, ROp::FromRegistry);
        let progs: Vec<Vec<Vec<(u8, ROp)>>> = vec![
            vec![vec![(1, ROp::RegisterNewStopped), (1, ROp::AlreadyRunning), (1, ROp::TryFromRegistry), f]],
            vec![vec![f, (1, ROp::StopHeld), (1, ROp::RegisterNewStopped), (1, ROp::AlreadyRunning)]],
            vec![vec![f, (1, ROp::RegisterNewStopped), (1, ROp::AlreadyRunning)]],
            vec![vec![(1, ROp::RegisterNewStopped)], vec![(1, ROp::AlreadyRunning), f]],
        ];
        for p in progs {
            push_case(&mut v, p, false, None);
        }
    }
    // two service types are independent: same-type races with an unrelated type in between
    for &x in &[ROp::FromRegistry, ROp::RegisterNew, ROp::Unregister] {
        for &y in &[ROp::FromRegistry, ROp::TryFromRegistry, ROp::AlreadyRunning] {
            push_case(&mut v, vec![vec![(1, x), (2, y)], vec![(2, x), (1, y)]], false, None);
        }
    }
    if tier == Tier::Thorough {
        let core = [
            ROp::FromRegistry,
            ROp::TryFromRegistry,
            ROp::AlreadyRunning,
            ROp::RegisterNew,
            ROp::Unregister,
            ROp::StopHeld,
        ];
        // [2,2]
        for &w in &core {
            for &x in &core {
                for &y in &core {
                    for &z in &core {
                        push_case(&mut v, vec![vec![(1, w), (1, x)], vec![(1, y), (1, z)]], true, None);
                    }
                }
            }
        }
        // four clients, one op each, deviation-bounded
        for (i, &w) in core.iter().enumerate() {
            for (j, &x) in core.iter().enumerate().skip(i) {
                for (k, &y) in core.iter().enumerate().skip(j) {
                    for &z in &core[k..] {
                        push_case(&mut v, vec![vec![(1, w)], vec![(1, x)], vec![(1, y)], vec![(1, z)]], true, Some(4));
                    }
                }
            }
        }
    }
    v
}

pub fn property() -> Property {
    Property {
        id: "C08",
        cases,
        clauses: &["registry-linearizable", "registry-linearizable-concurrent-history", "registry-history-with-termination"],
        full_rerun_check: true,
        assumptions: &[
            "identity of a returned address is observed by a call through it (hannibal offers no public identity); a dead address has no observable identity and is matched against the model's prediction",
            "release semantics (debug_assert!(ping) in from_registry compiled out) in the primary build",
        ],
    }
}
