//! C16: children live exactly as long as their parent and receive its broadcasts.

use hannibal::Addr;

use crate::{
    check::{Case, Property, Scene, Tier, Trace, Violation},
    ops::{run_client, Handles, Op, H},
    props::c02::Cause,
    scenes::{spawn_probe, Mailbox, SpawnCfg, Strat},
    trace::An,
    vexec::{Exec, ExecCfg},
    world::{store_put, Action, Cb, Note, RoleCfg, StartBeh, Stored, Work, P},
};

#[derive(Clone, Copy, Debug, PartialEq, Eq)]
pub enum Reg {
    Add,
    Ty(u8),
    /// the same actor registered under both message types
    Both,
    /// held with add_child and, in addition, registered under this type
    AddTy(u8),
    /// add_child now and once more after all the other children have been taken (the same child
    /// handed over twice is held twice - and costs its siblings nothing)
    AddTwice,
}

impl Reg {
    /// how often the parent holds the child under the unit message (add_child files it there)
    fn unit_entries(self) -> usize {
        match self {
            Reg::Add | Reg::AddTy(_) => 1,
            Reg::AddTwice => 2,
            Reg::Ty(_) | Reg::Both => 0,
        }
    }
    fn receives(self, ty: u8) -> bool {
        match self {
            Reg::Add | Reg::AddTwice => false,
            Reg::Ty(t) | Reg::AddTy(t) => t == ty,
            Reg::Both => true,
        }
    }
}

#[derive(Clone, Copy, Debug)]
pub struct Node {
    pub role: u8,
    pub parent: Option<u8>,
    pub reg: Reg,
    /// a client also holds a strong handle to it (for a while)
    pub outside: bool,
    /// ... and that client stops it right away (a child that dies while its parent lives)
    pub outside_stops: bool,
}

pub struct S {
    pub nodes: Vec<Node>,
    pub cause: Cause,
    /// broadcasts issued by the driver before it terminates the root: (type, id)
    pub bcasts: Vec<(u8, u32)>,
    pub mailbox: Mailbox,
    pub pid: &'static str,
    /// the root uses the recreate strategy and is restarted once before the broadcasts: a restart
    /// is not a termination, the children stay
    pub restart_root: bool,
    /// every parent's stopped() takes a scheduling round (children must outlive it), and the
    /// root says goodbye from it: a last broadcast (type, id) issued in stopped()
    pub slow_stop: Option<(u8, u32)>,
    /// every child runs timers of its own (an interval_with and an interval, period 3): they
    /// must not hold the child once its parent has let go of it
    pub child_timers: bool,
    /// the root takes its children from a *handler* (command messages the driver sends first)
    /// instead of from started()
    pub late_registration: bool,
    /// the outside holder of a child keeps it busy (a handler of two ticks), asks for its restart
    /// and lets go - all at t=0, while the parent broadcasts and then ends: the child gets through
    /// its restart and its queue before it stops
    pub child_restarts: bool,
}

const PANIC_MSG: u32 = 700;
const SLOW_MSG: u32 = 701;

impl S {
    fn children_of(&self, role: u8) -> Vec<&Node> {
        self.nodes.iter().filter(|n| n.parent == Some(role)).collect()
    }
}

impl Scene for S {
    fn roles(&self) -> Vec<RoleCfg> {
        // started_actions are filled in setup (they need the store keys)
        let n = self.nodes.iter().map(|n| n.role).max().unwrap_or(0) as usize + 1;
        let mut v = vec![RoleCfg::default(); n];
        match self.cause {
            Cause::StartErr => v[0].started.push(StartBeh::Err),
            Cause::StartPanic => v[0].started.push(StartBeh::Panic),
            Cause::HandlerPanic(_) => v[0].work.push((PANIC_MSG, Work { panic: true, ..Work::default() })),
            Cause::StoppedPanic => v[0].stopped_panic = true,
            Cause::TimeoutFail(_) => v[0].work.push((SLOW_MSG, Work { sleep: 5, ..Work::default() })),
            _ => {}
        }
        if self.child_restarts {
            for n in self.nodes.iter().filter(|n| n.outside) {
                v[n.role as usize].work.push((950, Work { sleep: 2, ..Work::default() }));
            }
        }
        if self.pid == "C06" {
            // borrowed by C06: a child that "dies on its own" crashes (its handler panics)
            for n in self.nodes.iter().filter(|n| n.outside_stops) {
                v[n.role as usize].work.push((PANIC_MSG, Work { panic: true, ..Work::default() }));
            }
        }
        if let Some((ty, id)) = self.slow_stop {
            for n in &self.nodes {
                if !self.children_of(n.role).is_empty() {
                    v[n.role as usize].stopped_yields = 1;
                }
            }
            v[0].stopped_actions.push(Action::Broadcast { ty, id });
        }
        v
    }

    fn setup(&self, exec: &Exec) {
        // spawn bottom-up so that every parent finds its children's addresses in the store
        let mut addrs: Vec<Option<Addr<P>>> = vec![None; self.nodes.len() + 1];
        let mut late_actions: Vec<Action> = vec![];
        let mut order: Vec<&Node> = self.nodes.iter().collect();
        order.sort_by_key(|n| std::cmp::Reverse(depth(&self.nodes, n.role)));
        for n in order {
            let mut actions = vec![];
            let mut again = vec![];
            for c in self.children_of(n.role) {
                let a = addrs[c.role as usize].clone().expect("child spawned before parent");
                let mut key = || store_put(Stored::Addr(a.clone()));
                match c.reg {
                    Reg::Add => actions.push(Action::AddChild { key: key() }),
                    Reg::Ty(ty) => actions.push(Action::RegisterChild { key: key(), ty }),
                    Reg::Both => {
                        actions.push(Action::RegisterChild { key: key(), ty: 1 });
                        actions.push(Action::RegisterChild { key: key(), ty: 2 });
                    }
                    Reg::AddTy(ty) => {
                        actions.push(Action::AddChild { key: key() });
                        actions.push(Action::RegisterChild { key: key(), ty });
                    }
                    Reg::AddTwice => {
                        actions.push(Action::AddChild { key: key() });
                        again.push(Action::AddChild { key: key() });
                    }
                }
            }
            actions.extend(again);
            if self.child_timers && n.parent.is_some() {
                actions.push(Action::IntervalWith { timer: 8, period: 3 });
                actions.push(Action::Interval { timer: 9, period: 3 });
            }
            if self.late_registration && n.role == 0 {
                late_actions = std::mem::take(&mut actions);
            }
            crate::world::W.with(|w| w.borrow_mut().roles[n.role as usize].started_actions = actions);
            let cfg = SpawnCfg {
                mailbox: self.mailbox,
                strat: if n.role == 0 && self.restart_root { Strat::Recreate } else { Strat::Default },
                timeout: if n.role == 0 && matches!(self.cause, Cause::TimeoutFail(_)) { Some((2, true)) } else { None },
            };
            addrs[n.role as usize] = Some(spawn_probe(n.role, cfg).detach());
        }
        // driver: broadcasts, then the terminating action on the root
        let root = addrs[0].clone().unwrap();
        crate::world::W.with(|w| w.borrow_mut().default_role[0] = 0);
        let mut ops: Vec<Op> = vec![];
        for (k, a) in late_actions.iter().enumerate() {
            ops.push(Op::Cmd(H::Addr(0), 680 + k as u32, *a));
        }
        if self.restart_root {
            ops.push(Op::Restart(H::Addr(0)));
        }
        for (k, (ty, id)) in self.bcasts.iter().enumerate() {
            // in trees with a dying child the second broadcast comes a tick later (the child is gone by then)
            if k == 1 && self.nodes.iter().any(|n| n.outside_stops) {
                ops.push(Op::Sleep(1));
            }
            ops.push(Op::Cmd(H::Addr(0), *id, Action::Broadcast { ty: *ty, id: *id }));
        }
        match self.cause {
            Cause::StopClient | Cause::StoppedPanic | Cause::Cancel(_) => ops.push(Op::Stop(H::Addr(0))),
            Cause::LastDrop | Cause::StartErr | Cause::StartPanic => {}
            Cause::HandlerPanic(_) => ops.push(Op::Send(H::Addr(0), PANIC_MSG)),
            Cause::TimeoutFail(_) => ops.push(Op::Send(H::Addr(0), SLOW_MSG)),
        }
        exec.spawn_client(0, run_client(0, Handles::with_addr(root), ops));
        // a feeder sends one message to every child through a weak handle (does not keep it alive)
        let mut fh = Handles::default();
        let mut fops = vec![];
        for n in self.nodes.iter().filter(|n| n.parent.is_some()) {
            fh.wsnd.push(Some(addrs[n.role as usize].as_ref().unwrap().weak_sender::<Note>()));
            fops.push(Op::Send(H::WSnd(fh.wsnd.len() as u8 - 1), 800 + n.role as u32));
        }
        exec.spawn_client(1, run_client(1, fh, fops));
        // outside holders
        let mut c = 2u8;
        for n in self.nodes.iter().filter(|n| n.outside) {
            let h = Handles::with_addr(addrs[n.role as usize].clone().unwrap());
            let ops = if self.child_restarts {
                vec![Op::Send(H::Addr(0), 950), Op::Restart(H::Addr(0)), Op::Drop(H::Addr(0))]
            } else if n.outside_stops && self.pid == "C06" {
                vec![Op::Send(H::Addr(0), PANIC_MSG), Op::Sleep(8), Op::Drop(H::Addr(0))]
            } else if n.outside_stops {
                vec![Op::Stop(H::Addr(0)), Op::Sleep(8), Op::Drop(H::Addr(0))]
            } else {
                vec![Op::Sleep(8), Op::Call(H::Addr(0), 900 + n.role as u32), Op::Drop(H::Addr(0))]
            };
            exec.spawn_client(c, run_client(c, h, ops));
            c += 1;
        }
        drop(addrs);
    }

    fn check(&self, t: &Trace) -> Vec<Violation> {
        let an = An::new(t.log);
        let mut out = vec![];
        let pid = self.pid;
        let ck = format!("{:?}", self.cause).split('(').next().unwrap_or("").to_string();
        let end_of = |role: u8| an.task_of_role(role).and_then(|tk| an.end_of_task(tk)).map(|(i, _)| i);
        let stopped_enter = |role: u8| an.enters.iter().find(|e| e.a == role && e.cb == Cb::Stopped).map(|e| e.idx);
        let stopped_exit = |role: u8| an.exits.iter().find(|e| e.a == role && e.cb == Cb::Stopped).map(|e| e.idx);
        // when does the outside handle of a node go away?
        let outside_drop = |role: u8| -> Option<usize> {
            let mut c = 2u8;
            for n in self.nodes.iter().filter(|n| n.outside) {
                if n.role == role {
                    return an.op(c, 2).map(|o| o.begin);
                }
                c += 1;
            }
            None
        };
        let root_started = an.enters.iter().any(|e| e.a == 0 && e.cb == Cb::Started);
        for n in self.nodes.iter().filter(|n| n.parent.is_some()) {
            let p = n.parent.unwrap();
            let p_end = end_of(p);
            // held by the parent until the parent terminates
            if n.outside_stops {
                // stopped on purpose by its outside holder: only the broadcast clause (for its
                // siblings) is of interest
                continue;
            }
            if let Some(se) = stopped_enter(n.role) {
                crate::check::oblige("child-kept-until-parent-ends");
                let released_by_parent = p_end.is_some_and(|pe| pe < se);
                if !released_by_parent {
                    out.push(Violation {
                        clause: "child-kept-until-parent-ends",
                        key: format!("{pid}/child-stopped-before-parent-ended/cause={ck}"),
                        detail: format!("child {} began stopped() at {se}, its parent {p} ended at {p_end:?}", n.role),
                    });
                }
                // a child that runs timers is released as promptly as any other: in the virtual
                // instant in which its parent ends, not at its next tick
                if self.child_timers && !n.outside {
                    if let Some(pe) = p_end {
                        crate::check::oblige("child-with-timers-released-at-once");
                        if t.log[se].time != t.log[pe].time {
                            out.push(Violation {
                                clause: "child-released-and-stops",
                                key: format!("{pid}/child-with-timers-released-late/cause={ck}"),
                                detail: format!("child {} (running an interval_with and an interval) began stopped() at t={}, its parent {p} had ended at t={}", n.role, t.log[se].time, t.log[pe].time),
                            });
                        }
                    }
                }
                if n.outside {
                    if let Some(od) = outside_drop(n.role) {
                        if se < od {
                            out.push(Violation {
                                clause: "outside-held-child-lives-on",
                                key: format!("{pid}/outside-held-child-stopped/cause={ck}"),
                                detail: format!("child {} stopped at {se} while an outside strong handle existed until {od}", n.role),
                            });
                        }
                    }
                }
            }
            // released: once the parent is gone (and the outside handle too) the child drains and stops
            if root_started && p_end.is_some() && t.res.end == crate::vexec::EndReason::Quiescent {
                crate::check::oblige("child-released-and-stops");
                if stopped_exit(n.role).is_none() || end_of(n.role).is_none() {
                    out.push(Violation {
                        clause: "child-released-and-stops",
                        key: format!("{pid}/child-not-stopped-after-parent-ended/cause={ck}"),
                        detail: format!("child {} did not stop gracefully although its parent {p} terminated (stopped-exit {:?}, task end {:?})", n.role, stopped_exit(n.role), end_of(n.role)),
                    });
                }
                // accepted messages are handled first
                let id = 800 + n.role as u32;
                let accepted = an.ops.iter().any(|o| o.c == 1 && o.ok() && matches!(self_feeder_op(self, o.i), Some(x) if x == id));
                if accepted && an.exit_of_msg(n.role, id).is_none() {
                    out.push(Violation {
                        clause: "child-drains",
                        key: format!("{pid}/child-dropped-accepted-message/cause={ck}"),
                        detail: format!("child {} accepted message {id} but never handled it", n.role),
                    });
                }
            }
            // outside-held child still answers
            if n.outside {
                let mut c = 2u8;
                for m in self.nodes.iter().filter(|m| m.outside) {
                    if m.role == n.role {
                        if let Some(o) = an.op(c, 1) {
                            if o.end.is_some() && !o.ok() {
                                out.push(Violation {
                                    clause: "outside-held-child-lives-on",
                                    key: format!("{pid}/outside-held-child-unreachable/cause={ck}"),
                                    detail: format!("call to outside-held child {} returned {:?}", n.role, o.res),
                                });
                            }
                        }
                    }
                    c += 1;
                }
            }
        }
        // broadcasts: exactly once to each child registered under the type, to nobody else
        // (the goodbye broadcast counts from the root's completed stopped())
        let goodbye = self.slow_stop.filter(|_| stopped_exit(0).is_some());
        // (send_to_children is C16's own subject: a scene borrowed by another property only
        // reports the lifetime clauses)
        let none: Vec<(u8, u32)> = vec![];
        // unit broadcasts (type 0) reach the children held with add_child, once per entry
        if pid == "C16" && self.bcasts.iter().any(|b| b.0 == 0) && t.res.end == crate::vexec::EndReason::Quiescent {
            let sent = self.bcasts.iter().filter(|(ty, id)| *ty == 0 && an.exit_of_msg(0, *id).is_some()).count();
            for n in self.nodes.iter().filter(|n| n.parent == Some(0) && !n.outside_stops) {
                crate::check::oblige("broadcast-delivered");
                let got = an.enters.iter().filter(|e| e.a == n.role && e.cb == Cb::Unit).count();
                let want = sent * n.reg.unit_entries();
                if got != want {
                    out.push(Violation {
                        clause: "broadcast-exactly-once-to-registered",
                        key: format!("{pid}/unit-broadcast-count/got={}/want={}", got.min(3), want.min(3)),
                        detail: format!("{sent} unit broadcast(s): child {} (registered {:?}) handled {got}, expected {want}", n.role, n.reg),
                    });
                }
            }
        }
        for (ty, id) in (if pid == "C16" || pid == "C06" { &self.bcasts } else { &none }).iter().filter(|b| b.0 != 0).chain(goodbye.iter()) {
            let delivered_by_root = an.exit_of_msg(0, *id).is_some() || goodbye == Some((*ty, *id));
            for n in self.nodes.iter().filter(|n| n.parent.is_some()) {
                let got = an.enters.iter().filter(|e| e.a == n.role && e.cb == (Cb::Bcast { ty: *ty, id: *id })).count();
                let want = usize::from(delivered_by_root && n.parent == Some(0) && n.reg.receives(*ty));
                if n.outside_stops {
                    // may or may not have been alive when the broadcast reached it
                    if got > 1 {
                        out.push(Violation {
                            clause: "broadcast-exactly-once-to-registered",
                            key: format!("{pid}/broadcast-count/got=2/want=1"),
                            detail: format!("broadcast {id}: child {} handled it {got} times", n.role),
                        });
                    }
                    continue;
                }
                if want == 1 {
                    crate::check::oblige("broadcast-delivered");
                }
                let settled = t.res.end == crate::vexec::EndReason::Quiescent;
                if got > want || (got < want && settled) {
                    out.push(Violation {
                        clause: "broadcast-exactly-once-to-registered",
                        key: format!("{pid}/broadcast-count/got={}/want={want}", got.min(2)),
                        detail: format!("broadcast {id} of type {ty}: child {} (registered {:?} under {:?}) handled it {got} times, expected {want}", n.role, n.reg, n.parent),
                    });
                }
            }
        }
        out
    }
}

fn self_feeder_op(s: &S, i: u16) -> Option<u32> {
    s.nodes.iter().filter(|n| n.parent.is_some()).nth(i as usize).map(|n| 800 + n.role as u32)
}

fn depth(nodes: &[Node], role: u8) -> usize {
    let mut d = 0;
    let mut cur = role;
    while let Some(p) = nodes.iter().find(|n| n.role == cur).and_then(|n| n.parent) {
        d += 1;
        cur = p;
    }
    d
}

pub fn causes(tier: Tier) -> Vec<Cause> {
    let mut v = vec![
        Cause::StopClient,
        Cause::LastDrop,
        Cause::StartErr,
        Cause::StartPanic,
        Cause::HandlerPanic(PANIC_MSG),
        Cause::StoppedPanic,
        Cause::TimeoutFail(SLOW_MSG),
    ];
    // cancellation of the root before its j-th poll (j=1 would cancel it before started() took the children)
    let maxj = if tier == Tier::Quick { 4 } else { 7 };
    for j in 2..=maxj {
        v.push(Cause::Cancel(j));
    }
    v
}

fn tree_name(nodes: &[Node]) -> String {
    nodes
        .iter()
        .map(|n| format!("{}<-{}{}{}{}", n.role, n.parent.map(|p| p.to_string()).unwrap_or("-".into()), match n.reg { Reg::Add => "a".into(), Reg::Ty(t) => format!("t{t}"), Reg::Both => "t1t2".into(), Reg::AddTy(t) => format!("at{t}"), Reg::AddTwice => "aa".into() }, if n.outside { "o" } else { "" }, if n.outside_stops { "x" } else { "" }))
        .collect::<Vec<_>>()
        .join(",")
}

fn base_cases(tier: Tier) -> Vec<Case> {
    let mut v = vec![];
    let root = Node { role: 0, parent: None, reg: Reg::Add, outside: false, outside_stops: false };
    let n = |role, parent, reg, outside| Node { role, parent: Some(parent), reg, outside, outside_stops: false };
    let dying = |role, parent, reg| Node { role, parent: Some(parent), reg, outside: true, outside_stops: true };
    let mut trees: Vec<Vec<Node>> = vec![
        // (no children at all: broadcasts go nowhere, nothing else changes)
        vec![root],
        vec![root, n(1, 0, Reg::Add, false)],
        vec![root, n(1, 0, Reg::Ty(1), false)],
        vec![root, n(1, 0, Reg::Ty(1), true)],
        vec![root, n(1, 0, Reg::Ty(1), false), n(2, 0, Reg::Ty(2), false)],
        vec![root, n(1, 0, Reg::Ty(1), false), n(2, 0, Reg::Ty(1), true)],
        vec![root, n(1, 0, Reg::Add, false), n(2, 0, Reg::Ty(2), false)],
        // one actor held twice by the same parent: under both types, or plainly and under a type
        vec![root, n(1, 0, Reg::Both, false), n(2, 0, Reg::Ty(2), false)],
        vec![root, n(1, 0, Reg::AddTy(2), false), n(2, 0, Reg::Ty(1), true)],
        vec![root, n(1, 0, Reg::AddTwice, false), n(2, 0, Reg::Add, false)],
        vec![root, n(1, 0, Reg::AddTwice, false), n(2, 0, Reg::Ty(1), false), n(3, 0, Reg::Add, true)],
        // a child that is stopped from outside while the parent lives, with siblings of the same type
        vec![root, dying(1, 0, Reg::Ty(1)), n(2, 0, Reg::Ty(1), false)],
        vec![root, n(1, 0, Reg::Ty(1), false), dying(2, 0, Reg::Ty(1)), n(3, 0, Reg::Ty(1), false)],
        vec![root, dying(1, 0, Reg::Ty(1)), dying(2, 0, Reg::Ty(1)), n(3, 0, Reg::Ty(1), false)],
        // depth 2
        vec![root, n(1, 0, Reg::Ty(1), false), n(2, 1, Reg::Ty(1), false)],
        vec![root, n(1, 0, Reg::Add, true), n(2, 1, Reg::Add, false)],
    ];
    if tier == Tier::Thorough {
        trees.push(vec![root, n(1, 0, Reg::Ty(1), false), n(2, 0, Reg::Ty(2), false), n(3, 0, Reg::Add, true)]);
        trees.push(vec![root, n(1, 0, Reg::Ty(1), false), n(2, 1, Reg::Ty(2), false), n(3, 2, Reg::Add, false)]);
        trees.push(vec![root, n(1, 0, Reg::Ty(1), false), n(2, 0, Reg::Ty(1), false), n(3, 1, Reg::Ty(1), false), n(4, 1, Reg::Add, true), n(5, 2, Reg::Ty(2), false)]);
    }
    let bsets: Vec<Vec<(u8, u32)>> = vec![vec![], vec![(1, 601)], vec![(1, 601), (2, 602)], vec![(1, 601), (1, 603)], vec![(1, 601), (1, 603), (1, 604), (1, 605)]];
    // a child that is restarted from outside while it is busy and its parent comes to an end
    for reg in [Reg::Ty(1), Reg::Both] {
        let tree = vec![root, n(1, 0, reg, true), n(2, 0, Reg::Ty(1), false)];
        for cause in [Cause::StopClient, Cause::LastDrop] {
            for &mb in &[Mailbox::U, Mailbox::B(1)] {
                v.push(Case {
                    desc: format!("children [a busy child is restarted from outside] tree={} cause={:?} mailbox={}", tree_name(&tree), cause, mb.name()),
                    exec: ExecCfg { horizon: 30, ..ExecCfg::default() },
                    bound: Some(if tier == Tier::Quick { 4 } else { 7 }),
                    scene: Box::new(S { nodes: tree.clone(), cause, bcasts: vec![(1, 601), (1, 603)], mailbox: mb, pid: "C16", restart_root: false, slow_stop: None, child_timers: false, late_registration: false, child_restarts: true }),
                });
            }
        }
    }
    // the unit message: add_child registers its children for it
    for tree in [vec![root, n(1, 0, Reg::Add, false), n(2, 0, Reg::Ty(1), false)], vec![root, n(1, 0, Reg::AddTy(2), false), n(2, 0, Reg::AddTwice, false)]] {
        for cause in [Cause::StopClient, Cause::LastDrop] {
            for bc in [vec![(0u8, 606u32)], vec![(0, 606), (1, 601), (0, 607)]] {
                for &mb in &[Mailbox::U, Mailbox::B(1)] {
                    v.push(Case {
                        desc: format!("children [unit broadcasts] tree={} cause={:?} bcasts={:?} mailbox={}", tree_name(&tree), cause, bc, mb.name()),
                        exec: ExecCfg { horizon: 30, ..ExecCfg::default() },
                        bound: Some(if tier == Tier::Quick { 4 } else { 7 }),
                        scene: Box::new(S { nodes: tree.clone(), cause, bcasts: bc.clone(), mailbox: mb, pid: "C16", restart_root: false, slow_stop: None, child_timers: false, late_registration: false, child_restarts: false }),
                    });
                }
            }
        }
    }
    let mbs: &[Mailbox] = if tier == Tier::Quick { &[Mailbox::U, Mailbox::B(1)] } else { &[Mailbox::U, Mailbox::B(0), Mailbox::B(1)] };
    for tree in &trees {
        for cause in causes(tier) {
            for bc in &bsets {
                for &mb in mbs {
                    // (quick tier: the trees with a child held twice by its parent are about the
                    // broadcast tables - two broadcasts of different types, graceful ends)
                    let twice = tree.iter().any(|n| matches!(n.reg, Reg::Both | Reg::AddTy(_) | Reg::AddTwice));
                    if twice && tier == Tier::Quick && !(matches!(cause, Cause::StopClient | Cause::LastDrop) && bc.iter().any(|b| b.0 == 2)) {
                        continue;
                    }
                    let big = tree.len() >= 3;
                    v.push(Case {
                        desc: format!("children tree={} cause={:?} bcasts={:?} mailbox={}", tree_name(tree), cause, bc, mb.name()),
                        exec: ExecCfg { horizon: 30, cancel: if let Cause::Cancel(j) = cause { Some((root_spawn_index(tree), j)) } else { None }, ..ExecCfg::default() },
                        bound: if tree.len() >= 4 { Some(if tier == Tier::Quick { 3 } else { 5 }) } else if big { Some(if tier == Tier::Quick { 4 } else { 7 }) } else { None },
                        scene: Box::new(S { nodes: tree.clone(), cause, bcasts: bc.clone(), mailbox: mb, pid: "C16", restart_root: false, slow_stop: None, child_timers: false, late_registration: false, child_restarts: false }),
                    });
                    // parents whose stopped() takes a while and says goodbye to the children
                    if matches!(cause, Cause::StopClient | Cause::LastDrop) && bc.len() <= 1 {
                        v.push(Case {
                            desc: format!("children [slow stopped() with a goodbye broadcast] tree={} cause={:?} bcasts={:?} mailbox={}", tree_name(tree), cause, bc, mb.name()),
                            exec: ExecCfg { horizon: 30, ..ExecCfg::default() },
                            bound: if tree.len() >= 4 { Some(if tier == Tier::Quick { 3 } else { 5 }) } else if big { Some(if tier == Tier::Quick { 4 } else { 7 }) } else { None },
                            scene: Box::new(S { nodes: tree.clone(), cause, bcasts: bc.clone(), mailbox: mb, pid: "C16", restart_root: false, slow_stop: Some((1, 650)), child_timers: false, late_registration: false, child_restarts: false }),
                        });
                    }
                    // children taken from a handler instead of from started()
                    if matches!(cause, Cause::StopClient | Cause::LastDrop | Cause::HandlerPanic(_)) && bc.len() <= 2 && tree.len() <= 3 && tree.iter().all(|n| n.parent.is_none() || n.parent == Some(0)) {
                        v.push(Case {
                            desc: format!("children [registered from a handler] tree={} cause={:?} bcasts={:?} mailbox={}", tree_name(tree), cause, bc, mb.name()),
                            exec: ExecCfg { horizon: 30, ..ExecCfg::default() },
                            bound: if big { Some(if tier == Tier::Quick { 3 } else { 6 }) } else { None },
                            scene: Box::new(S { nodes: tree.clone(), cause, bcasts: bc.clone(), mailbox: mb, pid: "C16", restart_root: false, slow_stop: None, child_timers: false, late_registration: true, child_restarts: false }),
                        });
                    }
                    // children that run timers of their own
                    if matches!(cause, Cause::StopClient | Cause::LastDrop | Cause::HandlerPanic(_)) && bc.is_empty() && tree.len() == 2 {
                        v.push(Case {
                            desc: format!("children [children run timers] tree={} cause={:?} bcasts={:?} mailbox={}", tree_name(tree), cause, bc, mb.name()),
                            exec: ExecCfg { horizon: 5, ..ExecCfg::default() },
                            bound: Some(if tier == Tier::Quick { 4 } else { 7 }),
                            scene: Box::new(S { nodes: tree.clone(), cause, bcasts: bc.clone(), mailbox: mb, pid: "C16", restart_root: false, slow_stop: None, child_timers: true, late_registration: false, child_restarts: false }),
                        });
                    }
                    // the same with a restart of the root first
                    if matches!(cause, Cause::StopClient | Cause::LastDrop | Cause::HandlerPanic(_)) && tree.len() <= 3 && !bc.is_empty() {
                        v.push(Case {
                            desc: format!("children [root restarted first] tree={} cause={:?} bcasts={:?} mailbox={}", tree_name(tree), cause, bc, mb.name()),
                            exec: ExecCfg { horizon: 30, ..ExecCfg::default() },
                            bound: if big { Some(if tier == Tier::Quick { 4 } else { 7 }) } else { None },
                            scene: Box::new(S { nodes: tree.clone(), cause, bcasts: bc.clone(), mailbox: mb, pid: "C16", restart_root: true, slow_stop: None, child_timers: false, late_registration: false, child_restarts: false }),
                        });
                    }
                }
            }
        }
    }
    v
}

/// the root is spawned last (bottom-up), so its spawn index is the number of other nodes
pub fn root_spawn_index(tree: &[Node]) -> usize {
    tree.len() - 1
}

fn cases(tier: Tier) -> Vec<Case> {
    // neutral re-configurations (see check::widen); a restart cannot be expressed on the stream loop
    let no_restart = |d: &str| !d.contains("[root restarted first]") && !d.contains("is restarted from outside");
    // (a child recreated from Default takes the harness' default role: the oracle follows roles)
    let same_value = |d: &str| !d.contains("is restarted from outside");
    crate::check::widen(&|| base_cases(tier), &|_| true, &same_value, Some(&no_restart))
}

pub fn property() -> Property {
    Property {
        id: "C16",
        cases,
        clauses: &["child-kept-until-parent-ends", "child-released-and-stops", "broadcast-delivered"],
        full_rerun_check: true,
        assumptions: &[
            "trees with three or more nodes are explored with a deviation bound (quick 3, thorough 4); two-node trees with all schedules",
            "a cancellation of the root before its first poll is not in the family (its started() has not yet taken the children's handles from the harness)",
        ],
    }
}
