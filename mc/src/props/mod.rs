use crate::check::Property;

pub mod c14;

pub fn all() -> Vec<Property> {
    vec![c14::property()]
}
