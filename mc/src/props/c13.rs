//! C13: stream-attached actors handle every item in order and end with the stream.

use crate::{
    check::{Case, Property, Tier, Trace, Violation},
    ops::{Op, H},
    progscene::{Attach, ClientSpec, HInit, ProgScene},
    props::c01::msg_id,
    scenes::{Mailbox, SpawnCfg, StreamVia, STREAM},
    trace::An,
    vexec::ExecCfg,
    world::{Action, Cb, Ev, RoleCfg, Work},
};

#[derive(Clone, Copy, Debug, PartialEq, Eq)]
pub enum A {
    /// the client waits two ticks (whatever is under way gets done)
    Pause,
    /// a command whose handler publishes on the topic the actor itself subscribed to in started()
    CtxPublish,
    Send,
    Call,
    Stop,
    CtxStop,
    Drop,
    /// a call whose caller gives up after the first poll (the call future is dropped)
    CallGiveUp,
}

pub struct X {
    /// items in the order in which the stream yields them
    items: Vec<u32>,
    /// the stream is closed at some point (by prefill or by the feeder)
    closes: bool,
    /// the handler of this item calls ctx.stop()
    item_stop: Option<u32>,
}

fn oracle(s: &ProgScene<X>, t: &Trace) -> Vec<Violation> {
    let an = An::new(t.log);
    let mut out = vec![];
    let x = &s.extra;
    let term = an.task_end(0);
    let stop_requested = s.clients.iter().flat_map(|c| c.ops.iter()).any(|op| matches!(op, Op::Stop(_) | Op::Cmd(_, _, Action::Stop)))
        || x.item_stop.is_some_and(|i| an.enters.iter().any(|e| e.cb == Cb::Item(i)));
    // items: handled in stream order, each once, a prefix of what the stream offers
    let handled: Vec<u32> = an.enters.iter().filter_map(|e| if let Cb::Item(i) = e.cb { Some(i) } else { None }).collect();
    if !handled.is_empty() {
        crate::check::oblige("items-in-order-once");
    }
    if !x.items.starts_with(&handled) {
        out.push(Violation {
            clause: "items-in-order-once",
            key: "C13/items-out-of-order-or-duplicated".into(),
            detail: format!("items handled {handled:?}, stream order {:?}", x.items),
        });
    }
    // nothing taken from the stream is lost
    let yielded = STREAM.with(|st| st.borrow().as_ref().map(|h| h.0.lock().unwrap_or_else(std::sync::PoisonError::into_inner).yielded).unwrap_or(0));
    if yielded as usize != handled.len() {
        out.push(Violation {
            clause: "no-item-lost",
            key: "C13/item-taken-but-not-handled".into(),
            detail: format!("the stream yielded {yielded} items but {} were handled", handled.len()),
        });
    }
    // every entered handler finishes (before finished()/stopped())
    let fin = an.enters.iter().find(|e| e.cb == Cb::Finished).map(|e| e.idx);
    for e in &an.enters {
        if matches!(e.cb, Cb::Item(_) | Cb::Msg(_)) {
            let ex = an.exits.iter().find(|x| x.cb == e.cb && x.idx > e.idx);
            match (ex, fin) {
                (None, _) => out.push(Violation {
                    clause: "handler-never-abandoned",
                    key: "C13/handler-abandoned".into(),
                    detail: format!("{:?} was entered but never completed", e.cb),
                }),
                (Some(x), Some(f)) if x.idx > f => out.push(Violation {
                    clause: "handler-never-abandoned",
                    key: "C13/handler-after-finished".into(),
                    detail: format!("{:?} completed after finished() began", e.cb),
                }),
                _ => {}
            }
        }
    }
    // messages of one client in submission order
    for (c, cs) in s.clients.iter().enumerate() {
        let mut last: Option<usize> = None;
        for (i, op) in cs.ops.iter().enumerate() {
            if let Op::Send(_, id) | Op::Call(_, id) = op {
                let ok = an.op(c as u8, i as u16).is_some_and(|o| o.ok());
                let en = an.enter_of_msg(0, *id).first().map(|e| e.idx);
                if an.enter_of_msg(0, *id).len() > 1 {
                    out.push(Violation { clause: "messages-once", key: "C13/message-twice".into(), detail: format!("message {id} handled twice") });
                }
                if let (Some(p), Some(n)) = (last, en) {
                    if n < p {
                        out.push(Violation { clause: "messages-in-order", key: "C13/message-overtaken".into(), detail: format!("message {id} overtook an earlier one of client {c}") });
                    }
                }
                if ok && en.is_some() {
                    last = en;
                }
                // a call that returned Ok was handled
                if let (Op::Call(..), true, None) = (op, ok, en) {
                    out.push(Violation { clause: "call-ok-handled", key: "C13/call-ok-unhandled".into(), detail: format!("call {id} Ok but not handled") });
                }
            }
        }
    }
    // an actor that ends because its last strong handle went away (nobody stopped it, its stream
    // is still open) has first handled everything its mailbox had accepted
    if !x.closes && !stop_requested && term.is_some_and(|(_, cancelled)| !cancelled) {
        for (c, cs) in s.clients.iter().enumerate() {
            for (i, op) in cs.ops.iter().enumerate() {
                if let Op::Send(_, id) | Op::Call(_, id) = op {
                    if an.op(c as u8, i as u16).is_some_and(|o| o.ok()) {
                        crate::check::oblige("accepted-handled-before-last-drop-end");
                        if an.enter_of_msg(0, *id).is_empty() {
                            out.push(Violation {
                                clause: "accepted-handled-before-last-drop-end",
                                key: "C13/accepted-message-lost-at-last-drop".into(),
                                detail: format!("message {id} was accepted (Ok), nobody stopped the actor and its stream was still open, yet it ended without handling it"),
                            });
                        }
                    }
                }
            }
        }
    }
    // termination: finished then stopped, once each, address Ok
    let fins = an.enters.iter().filter(|e| e.cb == Cb::Finished).count();
    let stops = an.enters.iter().filter(|e| e.cb == Cb::Stopped).count();
    let must_terminate = x.closes || stop_requested || s.clients.iter().all(|c| !c.ops.iter().any(|o| matches!(o, Op::Await(_) | Op::Join(_))));
    if must_terminate {
        crate::check::oblige("terminates");
        if term.is_none() {
            out.push(Violation {
                clause: "terminates",
                key: format!("C13/alive-at-quiescence/closes={}/stop={}", x.closes, stop_requested),
                detail: "the actor did not terminate although its stream ended / it was stopped / its last strong handle was dropped".into(),
            });
        } else {
            if fins != 1 || stops != 1 {
                out.push(Violation {
                    clause: "finished-then-stopped-once",
                    key: "C13/finished-stopped-count".into(),
                    detail: format!("finished() called {fins} times, stopped() {stops} times"),
                });
            }
            let word: Vec<Cb> = t.log.iter().filter_map(|e| if let Ev::Enter { a: 0, cb, .. } = e.ev { Some(cb) } else { None }).collect();
            if word.len() >= 2 && (word[word.len() - 2] != Cb::Finished || word[word.len() - 1] != Cb::Stopped) {
                out.push(Violation {
                    clause: "finished-then-stopped-once",
                    key: "C13/finished-stopped-order".into(),
                    detail: format!("the last callbacks were {:?}", &word[word.len() - 2..]),
                });
            }
        }
        for o in &an.ops {
            if let Some(Op::Await(_)) = s.clients.get(o.c as usize).and_then(|c| c.ops.get(o.i as usize)) {
                if term.is_some() && !o.ok() {
                    out.push(Violation { clause: "address-resolves-ok", key: "C13/await-not-ok".into(), detail: format!("await returned {:?}", o.res) });
                }
            }
        }
        // "finished and then stopped are called exactly once and the address resolves Ok" - in
        // that order: whoever sees the address resolve finds both hooks done (C04 says so of every
        // actor; here it is said of the stream loop, which has its own copy of the ending)
        for o in &an.ops {
            let (Some(Op::Await(_)), Some(end)) = (s.clients.get(o.c as usize).and_then(|c| c.ops.get(o.i as usize)), o.end) else { continue };
            crate::check::oblige("address-resolves-ok");
            if let Some(late) = t.log.iter().skip(end + 1).find_map(|e| match e.ev {
                Ev::Enter { a: 0, cb: cb @ (Cb::Finished | Cb::Stopped), .. } | Ev::Exit { a: 0, cb: cb @ (Cb::Finished | Cb::Stopped), .. } => Some(cb),
                _ => None,
            }) {
                out.push(Violation {
                    clause: "address-resolves-ok",
                    key: "C13/address-resolved-before-the-hooks-were-done".into(),
                    detail: format!("client {}'s await of the address returned {:?} while the {late:?} hook was still to run or to finish", o.c, o.res),
                });
            }
        }
    }
    // all items handled if the actor outlived the stream (nobody stopped or dropped it first)
    if x.closes && !stop_requested && term.is_some() && s.clients.iter().any(|c| c.ops.iter().any(|o| matches!(o, Op::Await(_)))) {
        crate::check::oblige("all-items-when-outliving-stream");
    }
    if x.closes && !stop_requested && term.is_some() && s.clients.iter().any(|c| c.ops.iter().any(|o| matches!(o, Op::Await(_)))) && handled != x.items {
        out.push(Violation {
            clause: "all-items-when-outliving-stream",
            key: "C13/items-missing-at-stream-end".into(),
            detail: format!("the stream ended after {:?} but only {handled:?} were handled", x.items),
        });
    }
    out
}

#[allow(clippy::too_many_arguments)]
fn make_case(via: StreamVia, prefill: &[u32], prefill_close: bool, feeder: &[Op], progs: &[Vec<A>], awaiter: bool, yields: u8, bound: Option<u32>) -> Case {
    make_case_t(via, prefill, prefill_close, feeder, progs, awaiter, yields, bound, None)
}

/// `timeout`: the builder is given a handler timeout of 2 ticks (and this fail_on_timeout) and
/// the first message and the first item need 5 ticks: the stream loop has no timeouts, nothing
/// may be abandoned
#[allow(clippy::too_many_arguments)]
fn make_case_t(via: StreamVia, prefill: &[u32], prefill_close: bool, feeder: &[Op], progs: &[Vec<A>], awaiter: bool, yields: u8, bound: Option<u32>, timeout: Option<bool>) -> Case {
    let mut clients = vec![];
    for (c, p) in progs.iter().enumerate() {
        let ops: Vec<Op> = p
            .iter()
            .enumerate()
            .map(|(i, a)| match a {
                A::Send => Op::Send(H::Addr(0), msg_id(c, i)),
                A::Call => Op::Call(H::Addr(0), msg_id(c, i)),
                A::Stop => Op::Stop(H::Addr(0)),
                A::CtxStop => Op::Cmd(H::Addr(0), msg_id(c, i), Action::Stop),
                A::Drop => Op::Drop(H::Addr(0)),
                A::CtxPublish => Op::Cmd(H::Addr(0), msg_id(c, i), Action::Publish { topic: 1, id: 77 }),
                A::Pause => Op::Sleep(2),
                A::CallGiveUp => Op::CallAbandon(H::Addr(0), msg_id(c, i)),
            })
            .collect();
        clients.push(ClientSpec { init: vec![HInit::Addr], ops });
    }
    if !feeder.is_empty() {
        clients.push(ClientSpec { init: vec![], ops: feeder.to_vec() });
    }
    if awaiter {
        clients.push(ClientSpec { init: vec![HInit::Addr], ops: vec![Op::Await(H::Addr(0))] });
    }
    let mut items: Vec<u32> = prefill.to_vec();
    items.extend(feeder.iter().filter_map(|o| if let Op::Feed(i) = o { Some(*i) } else { None }));
    let closes = prefill_close || feeder.iter().any(|o| matches!(o, Op::CloseStream));
    let mut role = RoleCfg { default_work: Work { yields, ..Work::default() }, ..RoleCfg::default() };
    // (where the handlers take a while, so does the stopped() hook)
    role.stopped_yields = yields;
    if progs.iter().flatten().any(|a| matches!(a, A::CtxPublish)) {
        // the stream-attached actor is a broker subscriber: the broker knows it, it does not hold it
        role.started_actions.push(Action::Subscribe { topic: 1 });
    }
    let ticking = TICKING.with(|t| t.get());
    if ticking {
        // a stream-attached actor may run timers like any other: they end with it, they do not
        // keep it going
        role.started_actions.push(Action::Interval { timer: 1, period: 2 });
        role.started_actions.push(Action::IntervalWith { timer: 2, period: 3 });
    }
    let mut spawn = SpawnCfg::plain(Mailbox::U);
    if let Some(fail) = timeout {
        spawn.timeout = Some((2, fail));
        role.work.push((msg_id(0, 0), Work { sleep: 5, ..Work::default() }));
        role.work.push((71, Work { sleep: 5, ..Work::default() }));
    }
    let item_stop = ITEM_STOP.with(|i| i.get()).filter(|i| items.contains(i));
    if let Some(i) = item_stop {
        role.msg_actions.push((i, Action::Stop));
    }
    let desc = format!(
        "stream timeout={timeout:?} via={via:?} prefill={prefill:?} close={prefill_close} feeder={feeder:?} awaiter={awaiter} yields={yields} progs={}",
        progs.iter().map(|p| p.iter().map(|l| format!("{l:?}")).collect::<Vec<_>>().join(",")).collect::<Vec<_>>().join(" | ")
    );
    let desc = desc.replacen("stream", &match item_stop {
        Some(i) => format!("stream [the handler of item {i} calls ctx.stop()]"),
        None => "stream".to_string(),
    }, 1);
    let desc = if ticking { desc.replacen("stream", "stream [the actor runs two intervals]", 1) } else { desc };
    Case {
        desc,
        // (with timers an actor that fails to end never lets the run go quiescent)
        exec: if ticking { ExecCfg { horizon: 12, ..ExecCfg::default() } } else { ExecCfg::default() },
        bound,
        scene: Box::new(ProgScene { variant: crate::progscene::current_variant(),
            spawn,
            attach: Attach::Stream { via, prefill: prefill.to_vec(), close: prefill_close },
            roles: vec![role],
            clients,
            extra: X { items, closes, item_stop },
            oracle,
        }),
    }
}

fn seqs(alpha: &[A], n: usize) -> Vec<Vec<A>> {
    let mut out: Vec<Vec<A>> = vec![vec![]];
    for _ in 0..n {
        out = out.into_iter().flat_map(|p| alpha.iter().map(move |l| { let mut q = p.clone(); q.push(*l); q })).collect();
    }
    out
}

thread_local! {
    /// the actor registers two intervals in started()
    static TICKING: std::cell::Cell<bool> = const { std::cell::Cell::new(false) };
    /// the handler of this item (if the case's stream yields it) stops the actor from inside
    static ITEM_STOP: std::cell::Cell<Option<u32>> = const { std::cell::Cell::new(None) };
}

// ------------------------------------------------------------------ the mailbox gets its turn
//
// "An explicit stop or handle drop terminates it even if the stream never ends" - also when the
// stream is *ready* every time the loop looks. A never-ending ready stream cannot be explored
// (no execution would end), so the scene uses a backlog of K ready items behind which the stream
// stays open and silent, and a stop request (or the last handle going away) that is in the
// mailbox before the first item is handled. Over ALL schedules and tie-breaks there must be
// executions in which the actor ends before it has worked through the whole backlog: if in every
// single one the K items come first, the loop serves the stream ahead of the mailbox, and with
// an endless ready stream it would never stop. (A set-valued oracle: evaluated once the case has
// been explored completely.)

const BACKLOG: u32 = 4;

struct Fair {
    /// property the scene reports under (C13, and C04 for its "an accepted stop terminates")
    pid: &'static str,
    via: StreamVia,
    by_drop: bool,
    /// instead of the stop: 1 = a call, 2 = a ping, issued by a client task (over all schedules
    /// also before the loop's first iteration)
    req: u8,
    /// fewest items handled before stopped() over all executions seen so far
    fewest: std::cell::Cell<Option<usize>>,
    executions: std::cell::Cell<u64>,
}

impl crate::check::Scene for Fair {
    fn roles(&self) -> Vec<RoleCfg> {
        // each handler takes a scheduling round, as a real handler would
        vec![RoleCfg { default_work: Work { yields: 1, ..Work::default() }, ..RoleCfg::default() }]
    }
    fn setup(&self, exec: &crate::vexec::Exec) {
        use crate::ops::{run_client, Handles};
        let items: Vec<u32> = (0..BACKLOG).map(|i| 70 + i).collect();
        let addr = match crate::scenes::spawn_probe_on_stream(0, self.via, &items, false, None) {
            crate::scenes::OwningOrAddr::Own(o) => o.detach(),
            crate::scenes::OwningOrAddr::Addr(a) => a,
        };
        if self.req > 0 {
            let op = if self.req == 1 { Op::Call(H::Addr(0), 1) } else { Op::Ping(H::Addr(0)) };
            exec.spawn_client(0, run_client(0, Handles::with_addr(addr), vec![op, Op::Stop(H::Addr(0)), Op::Await(H::Addr(0))]));
            return;
        }
        let ops = if self.by_drop { vec![Op::Drop(H::Addr(0))] } else { vec![Op::Stop(H::Addr(0)), Op::Await(H::Addr(0))] };
        // the request is issued here, before any task runs: it is in the mailbox (or the
        // mailbox is closed) before the loop's first iteration
        let mut h = Handles::with_addr(addr);
        if self.by_drop {
            h.addr[0] = None;
        } else if let Some(a) = h.addr[0].as_mut() {
            let _ = a.stop();
        }
        exec.spawn_client(0, run_client(0, h, if self.by_drop { vec![] } else { ops[1..].to_vec() }));
    }
    fn check(&self, t: &Trace) -> Vec<Violation> {
        let an = An::new(t.log);
        let mut out = vec![];
        if an.task_end(0).is_none() || !an.exits.iter().any(|e| e.cb == Cb::Stopped) {
            out.push(Violation {
                clause: "stop-or-drop-terminates",
                key: format!("{}/not-terminated-behind-a-ready-backlog", self.pid),
                detail: "the actor did not terminate gracefully although it was stopped / its last handle dropped".into(),
            });
        }
        out
    }
    fn observe(&self, t: &Trace) {
        let an = An::new(t.log);
        let st = match self.req {
            0 => an.enters.iter().find(|e| e.cb == Cb::Stopped).map(|e| e.idx),
            _ => an.op(0, 0).filter(|o| o.ok()).and_then(|o| o.end),
        };
        let Some(st) = st else { return };
        let before = an.enters.iter().filter(|e| matches!(e.cb, Cb::Item(_)) && e.idx < st).count();
        self.executions.set(self.executions.get() + 1);
        self.fewest.set(Some(self.fewest.get().map_or(before, |f| f.min(before))));
    }
    fn finish(&self, complete: bool) -> Vec<Violation> {
        if !complete {
            return vec![];
        }
        crate::check::oblige("mailbox-gets-its-turn");
        match self.fewest.get() {
            Some(f) if (f as u32) < BACKLOG => vec![],
            other => vec![Violation {
                clause: "mailbox-gets-its-turn",
                key: format!("{}/stream-served-ahead-of-the-mailbox/{}", self.pid, match (self.req, self.by_drop) { (1, _) => "call", (2, _) => "ping", (_, true) => "drop", _ => "stop" }),
                detail: format!(
                    "in all {} executions the actor handled the whole backlog of {BACKLOG} ready items before it reacted to the {} that was already waiting (fewest items before: {other:?}): behind a stream that is always ready it would {}",
                    self.executions.get(),
                    match (self.req, self.by_drop) { (1, _) => "call", (2, _) => "ping", (_, true) => "closed mailbox", _ => "stop request" },
                    if self.req > 0 { "never be answered" } else { "keep the actor alive forever" }
                ),
            }],
        }
    }
}

pub fn fair_cases(pid: &'static str) -> Vec<Case> {
    let mut v = vec![];
    for via in [StreamVia::SpawnOnStream, StreamVia::BuildOnStream, StreamVia::BoundedOnStream(1)] {
        for (by_drop, req) in [(false, 0), (true, 0), (false, 1), (false, 2)] {
            if by_drop && pid != "C13" || (req > 0) != (pid == "C02") {
                continue;
            }
            v.push(Case {
                desc: format!("stream [ready backlog of {BACKLOG}, {} already waiting] via={via:?}", match (req, by_drop) { (1, _) => "call", (2, _) => "ping", (_, true) => "closed mailbox", _ => "stop request" }),
                exec: ExecCfg { horizon: 30, ..ExecCfg::default() },
                bound: None,
                scene: Box::new(Fair { pid, via, by_drop, req, fewest: Default::default(), executions: Default::default() }),
            });
        }
    }
    v
}

fn cases(tier: Tier) -> Vec<Case> {
    let mut v = all_cases(tier);
    // the same with timers running in the actor: single-operation programs on streams that stay open
    TICKING.with(|t| t.set(true));
    v.extend(all_cases(tier).into_iter().filter(|c| c.desc.contains("close=false") && c.desc.contains("yields=0") && !c.desc.contains(',') || false).map(|mut c| {
        c.bound = c.bound.or(Some(if tier == Tier::Thorough { 5 } else { 3 }));
        c
    }));
    TICKING.with(|t| t.set(false));
    // the OwningAddr the builder returned is dropped (not detached) once the clients have their
    // addresses: an owner is a handle like the others, letting go of it stops nothing
    {
        let var = crate::progscene::Variant { owner_dropped: true, ..Default::default() };
        let extra = crate::progscene::with_variant(var, || all_cases(tier));
        let step = if tier == Tier::Thorough { 1 } else { 3 };
        v.extend(extra.into_iter().filter(|c| c.desc.contains("via=BuildOnStream") || c.desc.contains("via=BoundedOnStream")).enumerate().filter(|(i, _)| i % step == 0).map(|(_, mut c)| {
            c.desc = c.desc.replacen("stream", "stream [the owner is dropped, not detached]", 1);
            c
        }));
    }
    // a stream-attached actor that is a broker subscriber and has received a publication: the
    // broker does not keep it going either
    #[cfg(any(feature = "rt-tokio", feature = "rt-async"))]
    for via in [StreamVia::SpawnOnStream, StreamVia::BuildOnStream] {
        for (pre, feeder) in [(vec![], vec![]), (vec![71], vec![])] {
            for p in [vec![A::CtxPublish, A::Pause], vec![A::CtxPublish, A::Pause, A::Send], vec![A::CtxPublish, A::CtxPublish, A::Pause, A::Drop]] {
                let mut c = make_case(via, &pre, false, &feeder, &[p], false, 0, Some(4));
                c.exec.horizon = 12;
                v.push(c);
            }
        }
    }
    // an item handler that stops the actor from inside (item 72 where the stream yields it)
    ITEM_STOP.with(|i| i.set(Some(72)));
    v.extend(all_cases(tier).into_iter().filter(|c| c.desc.contains("calls ctx.stop()")));
    ITEM_STOP.with(|i| i.set(None));
    v
}

fn all_cases(tier: Tier) -> Vec<Case> {
    let mut v = fair_cases("C13");
    let vias = [StreamVia::SpawnOnStream, StreamVia::BuildOnStream, StreamVia::BoundedOnStream(1)];
    let alpha = [A::Send, A::Call, A::Stop, A::CtxStop, A::Drop, A::CallGiveUp];
    let f = |ids: &[u32], close: bool| -> Vec<Op> {
        let mut o: Vec<Op> = ids.iter().map(|i| Op::Feed(*i)).collect();
        if close {
            o.push(Op::CloseStream);
        }
        o
    };
    for via in vias {
        for yields in [0u8, 1] {
            // streams that end on their own: empty, finite always-ready, fed then closed
            let ending: Vec<(Vec<u32>, bool, Vec<Op>)> = vec![
                (vec![], true, vec![]),
                (vec![71], true, vec![]),
                (vec![71, 72, 73], true, vec![]),
                (vec![], false, f(&[71, 72], true)),
                (vec![71], false, f(&[72], true)),
                (vec![], false, f(&[], true)),
            ];
            for (pre, pclose, feeder) in &ending {
                v.push(make_case(via, pre, *pclose, feeder, &[], true, yields, None));
                for p in seqs(&alpha, 1) {
                    v.push(make_case(via, pre, *pclose, feeder, &[p.clone()], true, yields, None));
                }
                if yields == 0 {
                    for p in seqs(&alpha, 2) {
                        v.push(make_case(via, pre, *pclose, feeder, &[p.clone()], true, yields, None));
                    }
                }
            }
            // never-ending / never-ready streams: stop or last drop must still terminate the actor
            let open: Vec<(Vec<u32>, Vec<Op>)> = vec![(vec![], vec![]), (vec![71], vec![]), (vec![], f(&[71, 72], false))];
            for (pre, feeder) in &open {
                for p in seqs(&alpha, 1) {
                    let stops = p.iter().any(|a| matches!(a, A::Stop | A::CtxStop));
                    v.push(make_case(via, pre, false, feeder, &[p.clone()], stops, yields, None));
                }
                if yields == 0 {
                    for p in seqs(&alpha, 2) {
                        let first_stop = p.iter().position(|a| matches!(a, A::Stop | A::CtxStop));
                        let first_drop = p.iter().position(|a| matches!(a, A::Drop));
                        // an awaiter only when a stop is certainly issued (not after a drop)
                        let stops = match (first_stop, first_drop) {
                            (Some(s), Some(d)) => s < d,
                            (Some(_), None) => true,
                            _ => false,
                        };
                        v.push(make_case(via, pre, false, feeder, &[p.clone()], stops, yields, None));
                    }
                }
            }
        }
    }
    // the builder accepts a handler timeout for stream-attached actors too; the stream loop does
    // not enforce one, so a slow message or item is simply handled to the end
    for via in [StreamVia::BuildOnStream, StreamVia::BoundedOnStream(1)] {
        for fail in [false, true] {
            for p in seqs(&[A::Send, A::Call], 1) {
                v.push(make_case_t(via, &[71], true, &[], &[p.clone()], true, 0, None, Some(fail)));
                v.push(make_case_t(via, &[], false, &f(&[71, 72], true), &[p.clone()], true, 0, None, Some(fail)));
                for q in seqs(&[A::Send, A::Call, A::Stop], 1) {
                    v.push(make_case_t(via, &[71], false, &[], &[vec![p[0], q[0]]], true, 0, None, Some(fail)));
                }
            }
        }
    }
    if tier == Tier::Thorough {
        for via in vias {
            for p in seqs(&alpha, 1) {
                for q in seqs(&alpha, 1) {
                    v.push(make_case(via, &[71], false, &f(&[72, 73], true), &[p.clone(), q.clone()], true, 0, Some(6)));
                    v.push(make_case(via, &[71, 72, 73, 74], true, &[], &[p.clone(), q], true, 0, Some(6)));
                }
            }
        }
    }
    v
}

pub fn property() -> Property {
    Property {
        id: "C13",
        cases,
        clauses: &["mailbox-gets-its-turn", "items-in-order-once", "terminates", "all-items-when-outliving-stream", "accepted-handled-before-last-drop-end"],
        full_rerun_check: true,
        assumptions: &[
            "a never-ending stream that is always ready is excluded: terminating it on stop relies on the fairness of the random tie-break (probabilistic, not a bounded-exploration property)",
            "the select! tie-break between mailbox and stream is explored as a choice at every poll of the loop",
        ],
    }
}
