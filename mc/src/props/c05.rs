//! C05: strong handles keep an actor alive, weak never do; last drop drains, then stops.

use hannibal::Addr;

use crate::{
    check::{Case, Property, Scene, Tier, Trace, Violation},
    ops::{Op, H},
    progscene::{Attach, ClientSpec, HInit, ProgScene},
    props::c01::submitted_id,
    scenes::{Mailbox, SpawnCfg},
    trace::An,
    vexec::{Exec, ExecCfg},
    world::{Action, Cb, Probe, Res, RoleCfg, Work, T1},
};

pub struct X {
    temporaries: bool,
    /// timers that force-send with instant handlers: a tick can only be handled at the instant
    /// it was sent, and sending needs an upgrade - so none may be handled later than the last drop
    instant_ticks: bool,
    /// no handler of the scene takes virtual time and the clock only advances when nothing is
    /// runnable: draining and stopping after the last drop happen at the instant of that drop
    prompt: bool,
}

fn is_strong(h: &H) -> bool {
    matches!(h, H::Addr(_) | H::Own(_) | H::Snd(_) | H::Cal(_))
}

fn oracle(s: &ProgScene<X>, t: &Trace) -> Vec<Violation> {
    let an = An::new(t.log);
    let mut out = vec![];
    let tk = if s.extra.temporaries { "with-timers-or-broker" } else { "plain" };
    let mbn = s.spawn.mailbox.name();
    // --- track the number of strong handles held by clients: deltas at log positions
    // (creation counts from the End of the creating op, destruction from the Begin)
    let mut deltas: Vec<(usize, i32)> = vec![];
    let mut initial = 0i32;
    for (c, cs) in s.clients.iter().enumerate() {
        let mut held = cs.init.iter().filter(|i| matches!(i, HInit::Addr | HInit::Own | HInit::Snd | HInit::Cal)).count() as i32;
        initial += held;
        for (i, op) in cs.ops.iter().enumerate() {
            let Some(o) = an.op(c as u8, i as u16) else { break };
            let ok = o.res.is_some_and(|r| r.is_ok());
            match op {
                Op::Clone(h) | Op::ToSender(h) | Op::ToCaller(h) | Op::ToAddr(h) if (is_strong(h) || matches!(op, Op::ToSender(_) | Op::ToCaller(_) | Op::ToAddr(_))) && ok => {
                    if let Some(e) = o.end {
                        deltas.push((e, 1));
                        held += 1;
                    }
                }
                Op::Upgrade(_) if matches!(o.res, Some(Res::Some)) => {
                    // the strong handle exists from somewhere inside the op
                    deltas.push((o.begin, 1));
                    held += 1;
                }
                // submitting through a weak handle upgrades it for the duration of the operation
                Op::Send(H::WSnd(_), _) | Op::ForceSend(H::WSnd(_), _) | Op::Call(H::WCal(_), _) | Op::Halt(H::WAddr(_))
                    if !matches!(o.res, Some(Res::Err(crate::world::ErrKind::AlreadyStopped))) =>
                {
                    deltas.push((o.begin, 1));
                    deltas.push((o.end.unwrap_or(usize::MAX), -1));
                }
                Op::Drop(h) if is_strong(h) && ok => {
                    deltas.push((o.begin, -1));
                    held -= 1;
                }
                Op::Halt(H::Addr(_)) | Op::Await(H::Addr(_)) | Op::Consume(_) => {
                    // the handle is held for the duration of the operation
                    let at = o.end.unwrap_or(usize::MAX);
                    deltas.push((at, -1));
                    held -= 1;
                }
                _ => {}
            }
        }
        // the implicit final drop
        if let Some(o) = an.op(c as u8, cs.ops.len() as u16) {
            deltas.push((o.begin, -held));
        }
    }
    deltas.sort();
    let strong_at = |idx: usize| initial + deltas.iter().filter(|(p, _)| *p <= idx).map(|(_, d)| *d).sum::<i32>();
    let last_drop = if strong_at(usize::MAX - 1) == 0 { deltas.iter().filter(|(_, d)| *d < 0).map(|(p, _)| *p).max() } else { None };

    let stop_requested = s.clients.iter().flat_map(|c| c.ops.iter()).any(|op| matches!(op, Op::Stop(_) | Op::Halt(_) | Op::Consume(_) | Op::Cmd(_, _, Action::Stop)));
    // the stopped() of the termination (a restart also calls stopped(), followed by started())
    let last_started = an.enters.iter().filter(|e| e.a == 0 && e.cb == Cb::Started).map(|e| e.idx).max().unwrap_or(0);
    let stopped_enter = an.enters.iter().find(|e| e.a == 0 && e.cb == Cb::Stopped && e.idx > last_started).map(|e| e.idx);
    let term = an.task_end(0);

    // (A) alive while a strong handle exists and nobody stopped it
    if let (Some(se), false) = (stopped_enter, stop_requested) {
        crate::check::oblige("strong-keeps-alive");
        let n = strong_at(se);
        if n > 0 {
            out.push(Violation {
                clause: "strong-keeps-alive",
                key: format!("C05/stopped-while-strong-handle-exists/{tk}"),
                detail: format!("stopped() began while {n} strong handle(s) were still held by clients and nobody had stopped the actor"),
            });
        }
    }
    // (B) after the last strong drop: drain, then graceful termination
    // (the horizon of 40 ticks is ample: all clients are done by t=5 and at most a handful of
    // 2-tick handlers are still queued then, so a run cut at the horizon has had its chance)
    if last_drop.is_some() && !stop_requested {
        crate::check::oblige("last-drop-terminates");
        match term {
            Some((_, false)) if stopped_enter.is_some() => {}
            _ => out.push(Violation {
                clause: "last-drop-terminates",
                key: format!("C05/alive-after-last-strong-drop/{tk}/mailbox={mbn}"),
                detail: format!("all strong handles were dropped but the actor did not terminate gracefully (task end {term:?}) - weak handles, context, timers or subscriptions must not keep it alive"),
            }),
        }
        for (c, cs) in s.clients.iter().enumerate() {
            for (i, op) in cs.ops.iter().enumerate() {
                let (Some(id), Some(o)) = (submitted_id(op), an.op(c as u8, i as u16)) else { continue };
                if o.ok() && an.exit_of_msg(0, id).is_none() {
                    out.push(Violation {
                        clause: "last-drop-drains",
                        key: format!("C05/accepted-message-not-handled/{tk}/mailbox={mbn}"),
                        detail: format!("message {id} was accepted ({:?}) but never handled before the actor stopped after the last drop", o.res),
                    });
                }
            }
        }
    }
    // (B') a force-sending timer cannot deliver once no strong handle is left: with instant
    // handlers a tick is handled at the virtual instant it was sent
    if let (true, Some(ld), false) = (s.extra.instant_ticks, last_drop, stop_requested) {
        crate::check::oblige("timers-do-not-keep-alive");
        let drop_time = t.log[ld].time;
        if let Some(e) = an.enters.iter().find(|e| e.a == 0 && matches!(e.cb, Cb::Tick { .. }) && e.time > drop_time) {
            out.push(Violation {
                clause: "timers-do-not-keep-alive",
                key: format!("C05/tick-after-last-strong-drop/{tk}/mailbox={mbn}"),
                detail: format!("a timer tick was handled at t={} although the last strong handle had been dropped at t={drop_time}", e.time),
            });
        }
    }
    // (B'') ... and the end does not wait for anything that is merely pending (a timer that is
    // not due yet): with instant handlers the actor stops at the virtual instant of the last drop
    if let (true, Some(ld), false, Some(se)) = (s.extra.prompt, last_drop, stop_requested, stopped_enter) {
        crate::check::oblige("last-drop-terminates");
        let (drop_time, stop_time) = (t.log[ld].time, t.log[se].time);
        if stop_time > drop_time {
            out.push(Violation {
                clause: "last-drop-terminates",
                key: format!("C05/end-delayed-after-last-strong-drop/{tk}/mailbox={mbn}"),
                detail: format!("the last strong handle was dropped at t={drop_time} and every handler is instant, but stopped() only began at t={stop_time}: something kept the actor alive in between"),
            });
        }
    }
    // (C) upgrades
    let mut first_none_after_drop: Option<usize> = None;
    for o in &an.ops {
        let Some(op) = s.clients.get(o.c as usize).and_then(|cs| cs.ops.get(o.i as usize)) else { continue };
        if !matches!(op, Op::Upgrade(_) | Op::UpgradeProbe(_)) {
            continue;
        }
        let some = matches!(o.res, Some(Res::Some));
        if let Some((tidx, _)) = term {
            if o.begin > tidx && some {
                out.push(Violation {
                    clause: "upgrade-fails-after-termination",
                    key: format!("C05/upgrade-after-termination/{tk}"),
                    detail: format!("client {} op {} {op:?} succeeded after the actor had terminated", o.c, o.i),
                });
            }
        }
        if let Some(ld) = last_drop {
            if o.begin > ld {
                crate::check::oblige("upgrade-after-last-drop");
                if some && !s.extra.temporaries {
                    out.push(Violation {
                        clause: "upgrade-fails-without-strong",
                        key: format!("C05/upgrade-after-last-strong-drop/{tk}"),
                        detail: format!("client {} op {} {op:?} succeeded although no strong handle was left", o.c, o.i),
                    });
                }
                if some && first_none_after_drop.is_some_and(|f| f < o.begin) {
                    out.push(Violation {
                        clause: "upgrade-fails-forever",
                        key: format!("C05/upgrade-revived/{tk}"),
                        detail: format!("client {} op {} {op:?} succeeded after an earlier upgrade had already failed with no strong handle left", o.c, o.i),
                    });
                }
                if !some && first_none_after_drop.is_none() {
                    first_none_after_drop = o.end;
                }
            }
        }
        // while a client-held strong handle certainly exists, upgrades succeed
        if !some && strong_at(o.begin) > 0 && o.end.is_some_and(|e| strong_at(e) > 0) && term.is_none_or(|(t, _)| t > o.end.unwrap_or(0)) && !stop_requested {
            let min_during = (o.begin..=o.end.unwrap_or(o.begin)).map(strong_at).min().unwrap_or(0);
            if min_during > 0 {
                out.push(Violation {
                    clause: "upgrade-succeeds-while-strong",
                    key: format!("C05/upgrade-failed-while-strong/{tk}"),
                    detail: format!("client {} op {} {op:?} failed although a strong handle existed", o.c, o.i),
                });
            }
        }
    }
    out
}

fn scripts() -> Vec<(&'static str, Vec<HInit>, Vec<Op>)> {
    let a0 = H::Addr(0);
    vec![
        ("send-drop", vec![HInit::Addr], vec![Op::Send(a0, 1), Op::Drop(a0)]),
        ("sender", vec![HInit::Addr], vec![Op::ToSender(a0), Op::Drop(a0), Op::Send(H::Snd(0), 2), Op::Drop(H::Snd(0))]),
        ("caller", vec![HInit::Addr], vec![Op::ToCaller(a0), Op::Drop(a0), Op::Call(H::Cal(0), 3), Op::Drop(H::Cal(0))]),
        ("weak-roundtrip", vec![HInit::Addr], vec![Op::Downgrade(a0), Op::Drop(a0), Op::Upgrade(H::WAddr(0)), Op::Send(H::Addr(1), 4), Op::Drop(H::Addr(1)), Op::Upgrade(H::WAddr(0))]),
        ("clone", vec![HInit::Addr], vec![Op::Clone(a0), Op::Drop(a0), Op::Call(H::Addr(1), 5), Op::Drop(H::Addr(1))]),
        ("weak-sender", vec![HInit::Addr], vec![Op::ToWeakSender(a0), Op::Send(H::WSnd(0), 6), Op::Drop(a0), Op::Upgrade(H::WSnd(0)), Op::Drop(H::Snd(0)), Op::UpgradeProbe(H::WSnd(0))]),
        ("weak-caller", vec![HInit::Addr], vec![Op::ToWeakCaller(a0), Op::Call(H::WCal(0), 7), Op::Drop(a0), Op::Upgrade(H::WCal(0)), Op::Drop(H::Cal(0)), Op::UpgradeProbe(H::WCal(0))]),
        ("owner-detach", vec![HInit::Own], vec![Op::Send(H::Own(0), 8), Op::Detach(H::Own(0)), Op::Drop(H::Addr(0))]),
        ("held-sender", vec![HInit::Snd], vec![Op::Send(H::Snd(0), 9), Op::Downgrade(H::Snd(0)), Op::Drop(H::Snd(0)), Op::UpgradeProbe(H::WSnd(0))]),
        ("restart-send-drop", vec![HInit::Addr], vec![Op::Restart(a0), Op::Send(a0, 11), Op::Drop(a0)]),
        ("send-restart-call-drop", vec![HInit::Addr, HInit::Cal], vec![Op::Send(a0, 12), Op::Restart(a0), Op::Drop(a0), Op::Call(H::Cal(0), 13), Op::Drop(H::Cal(0))]),
        ("held-caller", vec![HInit::Cal], vec![Op::Call(H::Cal(0), 10), Op::Downgrade(H::Cal(0)), Op::Drop(H::Cal(0)), Op::UpgradeProbe(H::WCal(0))]),
        // the owner goes first, neither detached nor joined: the address derived from it is as strong as any
        ("owner-dropped-first", vec![HInit::Own], vec![Op::ToAddr(H::Own(0)), Op::Drop(H::Own(0)), Op::Send(H::Addr(0), 14), Op::Call(H::Addr(0), 15), Op::Drop(H::Addr(0))]),
        // a join future that is pending is no handle at all: with the owner and every address gone
        // the actor drains and stops at once, the future (still held) then yields it
        ("owner-join-pending", vec![HInit::Own], vec![Op::JoinStart(H::Own(0)), Op::ToAddr(H::Own(0)), Op::Drop(H::Own(0)), Op::Send(H::Addr(0), 18), Op::Drop(H::Addr(0)), Op::Sleep(3), Op::JoinAwait(0)]),
        // ... and the owner as the last strong handle
        ("owner-dropped-last", vec![HInit::Own], vec![Op::ToAddr(H::Own(0)), Op::Send(H::Addr(0), 16), Op::Drop(H::Addr(0)), Op::Call(H::Own(0), 17), Op::Drop(H::Own(0))]),
    ]
}

thread_local! {
    /// the observer's weak handles are, from t=4 on, the ones the actor's own context made
    static CTX_MADE: std::cell::Cell<bool> = const { std::cell::Cell::new(false) };
}

fn weak_observer() -> ClientSpec {
    if CTX_MADE.with(|c| c.get()) {
        // adopts the context-made handles as soon as the actor has shared them (in some
        // schedules while the scripts are still at work), probes through them, and again later
        return ClientSpec {
            init: vec![HInit::WAddr, HInit::WSnd, HInit::WCal],
            ops: vec![
                Op::AdoptCtxWeak,
                Op::UpgradeProbe(H::WAddr(0)),
                Op::UpgradeProbe(H::WSnd(0)),
                Op::UpgradeProbe(H::WCal(0)),
                Op::Sleep(4),
                Op::AdoptCtxWeak,
                Op::UpgradeProbe(H::WAddr(0)),
                Op::UpgradeProbe(H::WSnd(0)),
                Op::UpgradeProbe(H::WCal(0)),
                Op::Send(H::WSnd(0), 99),
            ],
        };
    }
    ClientSpec {
        init: vec![HInit::WAddr, HInit::WSnd, HInit::WCal],
        ops: vec![
            Op::UpgradeProbe(H::WAddr(0)),
            Op::UpgradeProbe(H::WSnd(0)),
            Op::Sleep(4),
            Op::UpgradeProbe(H::WAddr(0)),
            Op::UpgradeProbe(H::WSnd(0)),
            Op::UpgradeProbe(H::WCal(0)),
            Op::Send(H::WSnd(0), 99),
        ],
    }
}

#[derive(Clone, Copy, Debug, PartialEq, Eq)]
enum Extras {
    None,
    Interval,
    TwoIntervals,
    IntervalWithSlow,
    DelayedExec,
    /// a one-shot delayed_send that is still pending when everybody lets go (due at t=6)
    DelayedSend,
    Subscribed,
    /// subscribed, and one publication has already been delivered to it
    SubscribedPublished,
}

fn offset_ids(ops: &[Op], c: usize) -> Vec<Op> {
    ops.iter()
        .map(|op| match *op {
            Op::Send(h, id) => Op::Send(h, id + 100 * (c as u32 + 1)),
            Op::Call(h, id) => Op::Call(h, id + 100 * (c as u32 + 1)),
            o => o,
        })
        .collect()
}

/// ProgScene plus registry hygiene for the broker scenes.
struct WithBroker(ProgScene<X>);
impl Scene for WithBroker {
    fn roles(&self) -> Vec<RoleCfg> {
        self.0.roles()
    }
    fn pre(&self) {
        use futures::FutureExt as _;
        let _ = Addr::<hannibal::Broker<T1>>::unregister().now_or_never();
        let _ = Addr::<Probe<1>>::unregister().now_or_never();
    }
    fn setup(&self, exec: &Exec) {
        self.0.setup(exec)
    }
    fn check(&self, t: &Trace) -> Vec<Violation> {
        self.0.check(t)
    }
}

fn make_case(picks: &[usize], extras: Extras, mailbox: Mailbox, early: u32, bound: Option<u32>) -> Case {
    make_case_s(picks, extras, mailbox, early, bound, false)
}

/// `stream`: the actor is attached to a stream that stays open (one item ready, never closed)
fn make_case_s(picks: &[usize], extras: Extras, mailbox: Mailbox, early: u32, bound: Option<u32>, stream: bool) -> Case {
    let all = scripts();
    let mut clients = vec![];
    let mut names = vec![];
    for (c, &k) in picks.iter().enumerate() {
        let (name, init, ops) = &all[k];
        names.push(*name);
        clients.push(ClientSpec { init: init.clone(), ops: offset_ids(ops, c) });
    }
    clients.push(weak_observer());
    let mut role = RoleCfg::default();
    if CTX_MADE.with(|c| c.get()) {
        role.started_actions.push(Action::ShareCtxHandles);
    }
    match extras {
        Extras::None => {}
        Extras::Interval => role.started_actions.push(Action::Interval { timer: 1, period: 1 }),
        Extras::TwoIntervals => {
            role.started_actions.push(Action::Interval { timer: 1, period: 2 });
            role.started_actions.push(Action::Interval { timer: 2, period: 3 });
        }
        Extras::IntervalWithSlow => {
            role.started_actions.push(Action::IntervalWith { timer: 1, period: 1 });
            role.tick_work = Work { sleep: 2, ..Work::default() };
        }
        Extras::DelayedExec => role.started_actions.push(Action::DelayedExec { timer: 1, delay: 3 }),
        Extras::DelayedSend => role.started_actions.push(Action::DelayedSend { timer: 1, delay: 6 }),
        Extras::Subscribed => role.started_actions.push(Action::Subscribe { topic: 1 }),
        Extras::SubscribedPublished => {
            role.started_actions.push(Action::Subscribe { topic: 1 });
            role.started_actions.push(Action::Publish { topic: 1, id: 77 });
        }
    }
    // only a timer parked in `try_send` for mailbox space and the broker's fan-out hold a strong
    // temporary across steps; `interval` upgrades, force-sends and lets go within one poll
    let temporaries = matches!(extras, Extras::IntervalWithSlow | Extras::Subscribed | Extras::SubscribedPublished);
    let instant_ticks = matches!(extras, Extras::Interval | Extras::TwoIntervals | Extras::DelayedSend);
    let prompt = early == 0 && !matches!(extras, Extras::IntervalWithSlow);
    let desc = format!("lifetime mailbox={} extras={:?} early={} stream={} clients={}", mailbox.name(), extras, early, stream, names.join(" | "));
    let ps = ProgScene { variant: crate::progscene::current_variant(),
        spawn: SpawnCfg::plain(mailbox),
        attach: if stream {
            Attach::Stream { via: crate::scenes::StreamVia::BuildOnStream, prefill: vec![71], close: false }
        } else {
            Attach::None
        },
        roles: vec![role],
        clients,
        extra: X { temporaries, instant_ticks, prompt },
        oracle,
    };
    Case {
        desc,
        exec: ExecCfg { horizon: 40, max_early_fires: early, ..ExecCfg::default() },
        bound,
        scene: Box::new(WithBroker(ps)),
    }
}

/// The service registry is a strong holder like any other: an instance handed to it - by
/// `register()` or by `replace()`, over nothing, over a live or over a dead entry - lives on after
/// the caller has given its own handle away, until it is unregistered; then it drains and stops.
struct RegistryHolds {
    /// 0 = replace(), 1 = register()
    via: u8,
    /// what is registered before: 0 nothing, 1 an instance that has ended, 2 (replace only) a live one
    before: u8,
}

impl Scene for RegistryHolds {
    fn roles(&self) -> Vec<RoleCfg> {
        vec![RoleCfg::default(), RoleCfg::default()]
    }
    fn pre(&self) {
        use futures::FutureExt as _;
        let _ = Addr::<Probe<0>>::unregister().now_or_never();
    }
    fn setup(&self, exec: &Exec) {
        use crate::world::{log, Ask, Ev};
        use hannibal::prelude::*;
        let (via, before) = (self.via, self.before);
        exec.spawn_client(0, async move {
            let step = |i: u16, r: Res| log(Ev::End { c: 0, i, r });
            log(Ev::Begin { c: 0, i: 0 });
            let mut earlier = None;
            if before > 0 {
                let mut first = Probe::<0>::new(1).spawn();
                let _ = first.clone().register().await;
                if before == 1 {
                    let _ = first.stop();
                    let _ = first.clone().await;
                } else {
                    earlier = Some(first);
                }
            }
            step(0, Res::Ok);
            // the instance under test: handed to the registry, nothing else is kept but a weak handle
            log(Ev::Begin { c: 0, i: 1 });
            let a = Probe::<0>::new(0).spawn();
            let w = a.downgrade();
            let handed = if via == 0 { a.replace().await; true } else { a.register().await.is_ok() };
            step(1, Res::Bool(handed));
            log(Ev::Begin { c: 0, i: 2 });
            crate::world::sleep(2).await;
            let up = w.upgrade();
            let answered = match &up {
                Some(x) => x.call(Ask(41)).await.is_ok(),
                None => false,
            };
            drop(up);
            step(2, Res::Bool(answered));
            log(Ev::Begin { c: 0, i: 3 });
            step(3, Res::OptBool(Probe::<0>::already_running().await));
            // taken out of the registry (the entry comes back as the last strong handle and is dropped)
            log(Ev::Begin { c: 0, i: 4 });
            drop(Addr::<Probe<0>>::unregister().await);
            crate::world::sleep(2).await;
            step(4, Res::Bool(w.upgrade().is_some()));
            drop(earlier);
        });
    }
    fn check(&self, t: &Trace) -> Vec<Violation> {
        let an = An::new(t.log);
        let mut out = vec![];
        let r = |i: u16| an.op(0, i).and_then(|o| o.res);
        let name = format!("{}/before={}", if self.via == 0 { "replace" } else { "register" }, self.before);
        crate::check::oblige("strong-keeps-alive");
        if r(1) == Some(Res::Bool(true)) && (r(2) != Some(Res::Bool(true)) || r(3) != Some(Res::OptBool(Some(true)))) {
            out.push(Violation {
                clause: "strong-keeps-alive",
                key: format!("C05/registry-does-not-keep-alive/{name}"),
                detail: format!("an instance was handed to the registry and the caller kept only a weak handle: two ticks later upgrade-and-call -> {:?}, already_running -> {:?}", r(2), r(3)),
            });
        }
        if r(1) == Some(Res::Bool(true)) && r(4) == Some(Res::Bool(true)) {
            out.push(Violation {
                clause: "last-drop-terminates",
                key: format!("C05/alive-after-unregister/{name}"),
                detail: "the instance was unregistered and the entry dropped, yet its weak handle still upgrades two ticks later".into(),
            });
        }
        let stopped = an.exits.iter().any(|e| e.a == 0 && e.cb == Cb::Stopped);
        if r(4).is_some() && !stopped && r(1) == Some(Res::Bool(true)) {
            out.push(Violation {
                clause: "last-drop-terminates",
                key: format!("C05/no-graceful-end-after-unregister/{name}"),
                detail: "after unregister and drop of the entry the instance did not run stopped()".into(),
            });
        }
        out
    }
}

fn base_cases(tier: Tier) -> Vec<Case> {
    let mut v = vec![];
    let n = scripts().len();
    let mbs: &[Mailbox] = if tier == Tier::Quick { &[Mailbox::U, Mailbox::B(0)] } else { &[Mailbox::U, Mailbox::B(0), Mailbox::B(1)] };
    let extras = [Extras::None, Extras::Interval, Extras::TwoIntervals, Extras::IntervalWithSlow, Extras::DelayedExec, Extras::DelayedSend, Extras::Subscribed, Extras::SubscribedPublished];
    for &mb in mbs {
        for &ex in &extras {
            // the owner script can appear at most once
            let restarting = |k: usize| scripts()[k].0.contains("restart");
            let owner = |k: usize| scripts()[k].0.contains("owner");
            for i in 0..n {
                // the restart scripts re-register every timer; they are combined with the plain
                // and the delayed_exec scenes only
                if restarting(i) && !matches!(ex, Extras::None | Extras::DelayedExec) {
                    continue;
                }
                v.push(make_case(&[i], ex, mb, 0, None));
                for j in i..n {
                    if owner(i) && owner(j) {
                        continue;
                    }
                    if restarting(j) && (!matches!(ex, Extras::None | Extras::DelayedExec) || (tier == Tier::Quick && restarting(i) && ex != Extras::None)) {
                        continue;
                    }
                    let big = ex != Extras::None;
                    let _ = big;
                    v.push(make_case(&[i, j], ex, mb, 0, None));
                }
            }
        }
        // stream-attached actors (the other event loop): an open stream must not keep the actor alive
        if mb == Mailbox::U {
            // (a restart cannot be sent to a stream-attached actor: scripts 10 and 11 stay out)
            let restarting = |k: usize| scripts()[k].0.contains("restart");
            let owner = |k: usize| scripts()[k].0.contains("owner");
            for i in 0..n {
                if restarting(i) {
                    continue;
                }
                v.push(make_case_s(&[i], Extras::None, mb, 0, None, true));
                for j in i..n {
                    if (owner(i) && owner(j)) || restarting(j) {
                        continue;
                    }
                    v.push(make_case_s(&[i, j], Extras::None, mb, 0, None, true));
                }
            }
        }
        // timer expiry racing with runnable tasks
        for &ex in &[Extras::Interval, Extras::IntervalWithSlow] {
            for i in 0..n {
                v.push(make_case(&[i], ex, mb, 1, None));
            }
        }
    }
    if tier == Tier::Thorough {
        for i in 0..n {
            for j in i..n {
                for k in j..n {
                    if [i, j, k].iter().filter(|x| scripts()[**x].0.contains("owner")).count() > 1 {
                        continue;
                    }
                    v.push(make_case(&[i, j, k], Extras::None, Mailbox::U, 0, None));
                    v.push(make_case(&[i, j, k], Extras::Interval, Mailbox::B(0), 0, Some(5)));
                    v.push(make_case(&[i, j, k], Extras::Subscribed, Mailbox::U, 0, Some(4)));
                }
            }
        }
    }
    v
}

fn cases(tier: Tier) -> Vec<Case> {
    // neutral re-configurations (see check::widen). Quick tier: single-script cases only.
    // The stream pass puts the timer / subscription scenes on the other event loop (the plain
    // scenes have their own stream cases above); restarts cannot be expressed there.
    let plain = |d: &str| d.contains("stream=false") && d.contains("early=0");
    let sized = move |d: &str| plain(d) && (tier == Tier::Thorough || !d.contains(" | "));
    let on_stream = move |d: &str| sized(d) && !d.contains("restart") && !d.contains("extras=None");
    let mut v = crate::check::widen(&|| base_cases(tier), &sized, &sized, Some(&on_stream));
    // weak handles minted by the actor's own context (weak_address / weak_sender / weak_caller)
    // and handed to another task are weak handles like any other: the observer switches to them
    CTX_MADE.with(|c| c.set(true));
    // (quick tier: with the plain, the interval and the pending-one-shot scenes)
    let which = move |d: &str| tier == Tier::Thorough || d.contains("extras=None") || d.contains("extras=Interval ") || d.contains("extras=DelayedSend");
    v.extend(base_cases(tier).into_iter().filter(|c| sized(&c.desc) && which(&c.desc)).map(|mut c| {
        c.desc = c.desc.replacen("lifetime", "lifetime [the observer's weak handles are made by the actor's context]", 1);
        c
    }));
    CTX_MADE.with(|c| c.set(false));
    for (via, before) in [(0u8, 0u8), (0, 1), (0, 2), (1, 0), (1, 1)] {
        v.push(Case {
            desc: format!("lifetime [held by the registry only] handed over by {} before={before}", if via == 0 { "replace()" } else { "register()" }),
            exec: ExecCfg { horizon: 30, ..ExecCfg::default() },
            bound: None,
            scene: Box::new(RegistryHolds { via, before }),
        });
    }
    // "a parent's child list" is a strong holder like any other: a child held by nothing else
    // lives through a restart of its parent (the tree scenes of C16, reporting under C05)
    {
        use crate::props::{c02::Cause, c16::{Node, Reg, S}};
        let root = Node { role: 0, parent: None, reg: Reg::Add, outside: false, outside_stops: false };
        // two children that die on their own ahead of a live sibling, then two broadcasts: the
        // survivor stays the parent's child
        {
            let dying = |role| Node { role, parent: Some(0), reg: Reg::Ty(1), outside: true, outside_stops: true };
            let tree = vec![root, dying(1), dying(2), Node { role: 3, parent: Some(0), reg: Reg::Ty(1), outside: false, outside_stops: false }];
            for cause in [Cause::StopClient, Cause::LastDrop] {
                v.push(Case {
                    desc: format!("lifetime [held by the parent's child list only, two siblings died before it] cause={cause:?}"),
                    exec: ExecCfg { horizon: 30, ..ExecCfg::default() },
                    bound: Some(if tier == Tier::Quick { 4 } else { 7 }),
                    scene: Box::new(S { nodes: tree.clone(), cause, bcasts: vec![(1, 601), (1, 603)], mailbox: Mailbox::U, pid: "C05", restart_root: false, slow_stop: None, child_timers: false, late_registration: false, child_restarts: false }),
                });
            }
        }
        // a child that is handed to its parent a second time: its sibling, held by nothing but
        // the parent's child list, lives on
        {
            let tree = vec![root, Node { role: 1, parent: Some(0), reg: Reg::AddTwice, outside: false, outside_stops: false }, Node { role: 2, parent: Some(0), reg: Reg::Add, outside: false, outside_stops: false }];
            for cause in [Cause::StopClient, Cause::LastDrop] {
                for mb in [Mailbox::U, Mailbox::B(1)] {
                    v.push(Case {
                        desc: format!("lifetime [held by the parent's child list only, a sibling is added twice] cause={cause:?} mailbox={}", mb.name()),
                        exec: ExecCfg { horizon: 30, ..ExecCfg::default() },
                        bound: Some(if tier == Tier::Quick { 4 } else { 7 }),
                        scene: Box::new(S { nodes: tree.clone(), cause, bcasts: vec![(1, 601)], mailbox: mb, pid: "C05", restart_root: false, slow_stop: None, child_timers: false, late_registration: false, child_restarts: false }),
                    });
                }
            }
        }
        for reg in [Reg::Add, Reg::Ty(1)] {
            let tree = vec![root, Node { role: 1, parent: Some(0), reg, outside: false, outside_stops: false }];
            for cause in [Cause::StopClient, Cause::LastDrop] {
                for mb in [Mailbox::U, Mailbox::B(0), Mailbox::B(1)] {
                    v.push(Case {
                        desc: format!("lifetime [held by the parent's child list only, parent restarted first] reg={reg:?} cause={cause:?} mailbox={}", mb.name()),
                        exec: ExecCfg { horizon: 30, ..ExecCfg::default() },
                        bound: None,
                        scene: Box::new(S { nodes: tree.clone(), cause, bcasts: vec![(1, 601)], mailbox: mb, pid: "C05", restart_root: true, slow_stop: None, child_timers: false, late_registration: false, child_restarts: false }),
                    });
                    // ... and through a burst of broadcasts from the parent (more than a small
                    // bounded mailbox of the child has room for), without any restart
                    v.push(Case {
                        desc: format!("lifetime [held by the parent's child list only, burst of broadcasts] reg={reg:?} cause={cause:?} mailbox={}", mb.name()),
                        exec: ExecCfg { horizon: 30, ..ExecCfg::default() },
                        bound: None,
                        scene: Box::new(S { nodes: tree.clone(), cause, bcasts: vec![(1, 601), (1, 603), (1, 604), (1, 605)], mailbox: mb, pid: "C05", restart_root: false, slow_stop: None, child_timers: false, late_registration: false, child_restarts: false }),
                    });
                }
            }
        }
    }
    v
}

pub fn property() -> Property {
    Property {
        id: "C05",
        cases,
        clauses: &["strong-keeps-alive", "last-drop-terminates", "upgrade-after-last-drop", "timers-do-not-keep-alive"],
        full_rerun_check: true,
        assumptions: &[
            "strong handles are tracked on the harness side: created at the end of the creating operation, gone from the begin of the dropping one (conservative in both directions)",
            "in scenes with timers or a broker subscription hannibal itself holds short-lived strong temporaries (a timer's parked try_send, the broker's fan-out); there only 'upgrade never succeeds again after it failed' is required",
        ],
    }
}
