//! C12: a bounded mailbox exerts backpressure on send; unbounded and stop never wait.

use crate::{
    check::{Case, Property, Tier, Trace, Violation},
    ops::{Op, H},
    progscene::{ClientSpec, HInit, ProgScene, FULL},
    props::c01::{msg_id, seqs, submitted_id, to_op, L},
    scenes::{Mailbox, SpawnCfg},
    trace::An,
    vexec::ExecCfg,
    world::{Action, Cb, Ev, Res, RoleCfg, Work},
};

pub struct X {
    interval_with: bool,
}

fn is_waiting_send(op: &Op) -> bool {
    matches!(op, Op::Send(..) | Op::Burst(..))
}

fn oracle(s: &ProgScene<X>, t: &Trace) -> Vec<Violation> {
    let an = An::new(t.log);
    let mut out = vec![];
    let mb = s.spawn.mailbox;
    let mbn = mb.name();
    // ids submitted through the waiting fire-and-forget path
    let mut send_ids: Vec<u32> = vec![];
    for cs in &s.clients {
        for op in &cs.ops {
            if is_waiting_send(op) {
                send_ids.extend(submitted_id(op));
            }
        }
    }
    // (1) bound: #(sends returned Ok) - #(of those, already taken out of the mailbox) <= n at
    // every moment. Dequeue and handler entry happen in the same step.
    if let Mailbox::B(n) = mb {
        let mut returned: Vec<u32> = vec![];
        let mut entered: Vec<u32> = vec![];
        // the bound speaks about a live mailbox: once the actor has terminated there is no
        // mailbox to be behind on (a parked send is released, C02 says how it may resolve)
        let term = an.task_end(0).map(|(i, _)| i).unwrap_or(usize::MAX);
        for (idx, e) in t.log.iter().enumerate() {
            if idx >= term {
                break;
            }
            match e.ev {
                Ev::End { c, i, r: Res::Ok } => {
                    if let Some(op) = s.clients.get(c as usize).and_then(|cs| cs.ops.get(i as usize)) {
                        if is_waiting_send(op) {
                            returned.extend(submitted_id(op));
                        }
                    }
                }
                Ev::Enter { a: 0, cb: Cb::Msg(id), .. } => entered.push(id),
                _ => {}
            }
            if !returned.is_empty() {
                crate::check::oblige("backpressure-bound");
            }
            let behind = returned.iter().filter(|id| !entered.contains(id)).count();
            if behind > n {
                out.push(Violation {
                    clause: "backpressure-bound",
                    key: format!("C12/bound-exceeded/mailbox={mbn}"),
                    detail: format!("{behind} sends had returned Ok whose messages were still in the bounded({n}) mailbox"),
                });
                break;
            }
        }
    }
    // (2) every send resolves
    for (c, cs) in s.clients.iter().enumerate() {
        for (i, op) in cs.ops.iter().enumerate() {
            let rec = an.op(c as u8, i as u16);
            let started = rec.is_some();
            let resolved = rec.is_some_and(|o| o.end.is_some());
            if started && !resolved {
                out.push(Violation {
                    clause: "send-resolves",
                    key: format!("C12/unresolved/{}/mailbox={mbn}", format!("{op:?}").split('(').next().unwrap_or("")),
                    detail: format!("client {c} op {i} {op:?} never returned"),
                });
            }
            // (2b) nothing submitted to a live actor is refused: the non-waiting path ignores the
            // bound, the waiting path waits - neither reports "full"
            if let Some(o) = rec {
                let term = an.task_end(0).map(|(i, _)| i).unwrap_or(usize::MAX);
                if let (Some(e), Some(r)) = (o.end, o.res) {
                    if e < term {
                        crate::check::oblige("live-actor-accepts");
                        if matches!(r, Res::Err(_)) {
                            out.push(Violation {
                                clause: "live-actor-accepts",
                                key: format!("C12/refused-by-live-actor/{}/mailbox={mbn}", format!("{op:?}").split('(').next().unwrap_or("")),
                                detail: format!("client {c} op {i} {op:?} returned {r:?} while the actor was alive"),
                            });
                        }
                    }
                }
            }
            // (3) on an unbounded mailbox send never waits: begin and end in the same step
            if let (Mailbox::U, true, Some(o)) = (mb, is_waiting_send(op), rec) {
                crate::check::oblige("unbounded-send-never-waits");
                if let Some(e) = o.end {
                    if t.log[o.begin].step != t.log[e].step {
                        out.push(Violation {
                            clause: "unbounded-send-never-waits",
                            key: "C12/unbounded-send-waited".to_string(),
                            detail: format!("client {c} op {i} {op:?} was suspended on an unbounded mailbox"),
                        });
                    }
                }
            }
            // (4) stop never waits for mailbox space
            if let (Op::Stop(_), Some(o)) = (op, rec) {
                crate::check::oblige("stop-never-waits");
                if let Some(e) = o.end {
                    if t.log[o.begin].step != t.log[e].step {
                        out.push(Violation {
                            clause: "stop-never-waits",
                            key: format!("C12/stop-waited/mailbox={mbn}"),
                            detail: "stop() was suspended".into(),
                        });
                    }
                }
            }
        }
    }
    let _ = s.extra.interval_with;
    out
}

thread_local! {
    /// the clients' weak sender / weak caller are the ones the actor's own context made
    static CTX_MADE: std::cell::Cell<bool> = const { std::cell::Cell::new(false) };
}

/// The builder's third terminal: `build(a).bounded(n).register()` - the mailbox the builder was
/// given is the mailbox the registered service has. One client registers the actor and sends.
struct ViaRegister {
    n: usize,
    sends: u32,
    work: Work,
}

impl crate::check::Scene for ViaRegister {
    fn roles(&self) -> Vec<RoleCfg> {
        vec![RoleCfg { default_work: self.work, ..RoleCfg::default() }]
    }
    fn pre(&self) {
        use futures::FutureExt as _;
        let _ = hannibal::Addr::<crate::world::P>::unregister().now_or_never();
    }
    fn setup(&self, exec: &crate::vexec::Exec) {
        use hannibal::prelude::*;
        crate::world::W.with(|w| w.borrow_mut().default_role[0] = 0);
        let (n, sends) = (self.n, self.sends);
        exec.spawn_client(0, async move {
            let probe = crate::world::Probe::<0>::new(0);
            let addr = hannibal::build(probe).bounded(n).register().await.expect("register").0;
            let h = crate::ops::Handles::with_addr(addr);
            crate::ops::run_client(0, h, (0..sends).map(|k| Op::Send(H::Addr(0), 100 + k)).collect()).await;
        });
    }
    fn check(&self, t: &Trace) -> Vec<Violation> {
        let mut out = vec![];
        let (mut returned, mut entered) = (0usize, 0usize);
        for e in t.log {
            match e.ev {
                // (the client's last logged operation is its letting go of the handle)
                Ev::End { c: 0, i, r: Res::Ok } if (i as u32) < self.sends => returned += 1,
                Ev::Enter { a: 0, cb: Cb::Msg(_), .. } => entered += 1,
                _ => {}
            }
            crate::check::oblige("backpressure-bound");
            if returned > entered + self.n {
                out.push(Violation {
                    clause: "backpressure-bound",
                    key: format!("C12/bound-exceeded/via-register/mailbox=B{}", self.n),
                    detail: format!("{} sends had returned Ok whose messages were still in the bounded({}) mailbox of an actor built with .bounded({}).register()", returned - entered, self.n, self.n),
                });
                break;
            }
        }
        out
    }
}

fn make_case(progs: &[Vec<L>], mailbox: Mailbox, work: Work, interval_with: bool, stopper: bool, bound: Option<u32>) -> Case {
    let ctx_made = CTX_MADE.with(|c| c.get());
    let mut clients = vec![];
    let mut own_given = false;
    for (c, p) in progs.iter().enumerate() {
        let mut ops: Vec<Op> = p.iter().enumerate().map(|(i, l)| to_op(*l, msg_id(c, i))).collect();
        if ctx_made {
            ops.insert(0, Op::AdoptCtx);
        }
        let mut init = FULL.to_vec();
        // (the one owner goes to the first client that sends through it)
        if !own_given && p.contains(&L::SendOwn) {
            init.push(HInit::Own);
            own_given = true;
        }
        clients.push(ClientSpec { init, ops });
    }
    if stopper {
        // a client that stops the actor while senders may be parked
        clients.push(ClientSpec { init: vec![HInit::Addr], ops: vec![Op::Stop(H::Addr(0))] });
    }
    let mut role = RoleCfg { default_work: work, tick_work: work, ..RoleCfg::default() };
    if ctx_made {
        role.started_actions.push(Action::ShareCtxHandles);
    }
    if stopper {
        // ... and whose stopped() hook takes a while: the mailbox is still the live actor's, the
        // parked senders stay parked until it has terminated
        role.stopped_yields = 1;
        role.stopped_sleep = 1;
    }
    if interval_with {
        role.started_actions.push(Action::IntervalWith { timer: 1, period: 1 });
    }
    let desc = format!(
        "backpressure{}{} mailbox={} work={}y{}s iw={} stopper={} progs={}",
        crate::progscene::variant_tag(),
        if ctx_made { " [weak handles made by the actor's context]" } else { "" },
        mailbox.name(),
        work.yields,
        work.sleep,
        interval_with,
        stopper,
        progs.iter().map(|p| p.iter().map(|l| format!("{l:?}")).collect::<Vec<_>>().join(",")).collect::<Vec<_>>().join(" | ")
    );
    Case {
        desc,
        exec: ExecCfg { horizon: 4, ..ExecCfg::default() },
        bound,
        scene: Box::new(ProgScene { variant: crate::progscene::current_variant(), attach: crate::progscene::attach_for(mailbox), spawn: SpawnCfg::plain(mailbox), roles: vec![role], clients, extra: X { interval_with }, oracle }),
    }
}

/// One deep history instead of many short ones: the actor is busy with its first message while a
/// client pushes `n` more through the waiting path. "Unbounded" must mean it - a large finite
/// capacity standing in for it (a refactoring that builds the unbounded mailbox as a big bounded
/// one) only shows with a backlog this deep.
fn deep_case(n: u32, via_sender: bool) -> Case {
    let h = if via_sender { H::Snd(0) } else { H::Addr(0) };
    let clients = vec![ClientSpec { init: FULL.to_vec(), ops: vec![Op::Send(H::Addr(0), 100), Op::Burst(h, 1000, n)] }];
    let mut role = RoleCfg::default();
    role.work.push((100, Work { sleep: 2, ..Work::default() }));
    Case {
        desc: format!("backpressure{} deep backlog: {n} sends via {} behind a busy handler, mailbox=U", crate::progscene::variant_tag(), if via_sender { "Sender" } else { "Addr" }),
        exec: ExecCfg { horizon: 1, ..ExecCfg::default() },
        bound: Some(1),
        scene: Box::new(ProgScene { variant: crate::progscene::current_variant(), attach: crate::progscene::attach_for(Mailbox::U), spawn: SpawnCfg::plain(Mailbox::U), roles: vec![role], clients, extra: X { interval_with: false }, oracle }),
    }
}

fn plain_cases(tier: Tier) -> Vec<Case> {
    let mut v = vec![];
    let deep = if tier == Tier::Quick { 100_000 } else { 1_100_000 };
    v.push(deep_case(deep, false));
    v.push(deep_case(deep, true));
    let senders = [L::SendAddr, L::SendSnd, L::SendWSnd];
    let mixed = [L::SendAddr, L::SendSnd, L::SendWSnd, L::CallAddr, L::Ping, L::ForceWSnd];
    let works = [Work::default(), Work { yields: 1, ..Work::default() }, Work { sleep: 1, ..Work::default() }];
    let mbs: Vec<Mailbox> = if tier == Tier::Quick {
        vec![Mailbox::U, Mailbox::B(0), Mailbox::B(1), Mailbox::B(2)]
    } else {
        vec![Mailbox::U, Mailbox::B(0), Mailbox::B(1), Mailbox::B(2), Mailbox::B(3), Mailbox::B(4)]
    };
    for &mb in &mbs {
        for &work in &works {
            // one sender, up to 3 (quick) / 4 messages
            for n in 1..=3 {
                for p in seqs(&mixed, n) {
                    if !p.iter().any(|l| senders.contains(l)) {
                        continue;
                    }
                    if n == 3 && work.yields + work.sleep as u8 > 0 && tier == Tier::Quick {
                        continue;
                    }
                    v.push(make_case(&[p], mb, work, false, false, None));
                }
            }
            // two senders [1,1], [2,1], three senders [1,1,1]
            for a in seqs(&senders, 1) {
                for b in seqs(&mixed, 1) {
                    for stopper in [false, true] {
                        v.push(make_case(&[a.clone(), b.clone()], mb, work, false, stopper, None));
                    }
                }
            }
            for a in seqs(&senders, 2) {
                for b in seqs(&mixed, 1) {
                    v.push(make_case(&[a.clone(), b], mb, work, false, false, None));
                }
            }
            for a in seqs(&senders, 1) {
                for b in seqs(&senders, 1) {
                    for c in seqs(&mixed, 1) {
                        v.push(make_case(&[a.clone(), b.clone(), c], mb, work, false, false, None));
                    }
                }
            }
            // a stop request with two or three senders parked behind it
            for a in seqs(&senders, 1) {
                v.push(make_case(&[vec![a[0], a[0]], vec![a[0], a[0]]], mb, work, false, true, Some(4)));
                v.push(make_case(&[vec![a[0]], vec![a[0]], vec![a[0], a[0]]], mb, work, false, true, Some(3)));
            }
            // a sender that gives up while parked (its future is dropped) holds nobody else up and
            // does not loosen the bound for the others
            for a in seqs(&senders, 1) {
                v.push(make_case(&[vec![L::SendAbandon, a[0], a[0]]], mb, work, false, false, None));
                v.push(make_case(&[vec![a[0], L::SendAbandon, a[0]]], mb, work, false, false, None));
                v.push(make_case(&[vec![L::SendAbandon, L::SendAbandon], vec![a[0], a[0]]], mb, work, false, false, None));
                v.push(make_case(&[vec![a[0], L::SendAbandon], vec![L::SendAbandon, a[0]]], mb, work, false, false, None));
            }
            // interval_with as a sender (parks in the timer task), plus one client sender
            for a in seqs(&senders, 1) {
                v.push(make_case(&[a.clone()], mb, work, true, false, None));
                v.push(make_case(&[a.clone(), vec![L::CallAddr]], mb, work, true, true, None));
            }
        }
    }
    // an OwningAddr sends like the address it wraps: it waits for room
    for &mb in &mbs {
        for &work in &works {
            for p in [vec![L::SendOwn, L::SendOwn, L::SendOwn], vec![L::SendOwn, L::SendAddr, L::SendOwn, L::SendSnd]] {
                v.push(make_case(&[p], mb, work, false, false, None));
            }
            v.push(make_case(&[vec![L::SendOwn, L::SendOwn], vec![L::SendAddr, L::CallAddr]], mb, work, false, false, None));
        }
    }
    // the builder's register() terminal keeps the mailbox it was given
    for n in [0usize, 1, 2] {
        for work in [Work { sleep: 2, ..Work::default() }, Work { yields: 1, ..Work::default() }] {
            v.push(Case {
                desc: format!("backpressure{} build().bounded({n}).register(), {} sends, work={}y{}s", crate::progscene::variant_tag(), n + 3, work.yields, work.sleep),
                exec: ExecCfg { horizon: 20, ..ExecCfg::default() },
                bound: None,
                scene: Box::new(ViaRegister { n, sends: n as u32 + 3, work }),
            });
        }
    }
    // a handler that takes *long* (100 s on the virtual clock): a parked send stays parked however
    // long it takes - no patience runs out
    for &mb in &mbs {
        if mb == Mailbox::U {
            continue;
        }
        let long = Work { sleep: 100_000, ..Work::default() };
        for p in [vec![L::SendAddr, L::SendAddr, L::SendAddr], vec![L::SendSnd, L::SendWSnd, L::SendSnd, L::SendAddr]] {
            let mut c = make_case(&[p], mb, long, false, false, None);
            c.exec.horizon = 600_000;
            c.exec.real_crosscheck = false;
            v.push(c);
        }
        let mut c = make_case(&[vec![L::SendAddr, L::SendAddr], vec![L::SendSnd, L::SendSnd]], mb, long, false, false, Some(3));
        c.exec.horizon = 600_000;
        c.exec.real_crosscheck = false;
        v.push(c);
    }
    // a weak sender is a weak sender, whoever made it: the same through the handles the actor's
    // own context mints (handed to other tasks)
    CTX_MADE.with(|c| c.set(true));
    for &mb in &mbs {
        for &work in &works {
            let w = [L::SendWSnd, L::CallWCal, L::ForceWSnd];
            for n in 1..=3 {
                for p in seqs(&w, n) {
                    if !p.contains(&L::SendWSnd) || (n == 3 && p.iter().filter(|l| **l == L::SendWSnd).count() < 2) {
                        continue;
                    }
                    v.push(make_case(&[p], mb, work, false, false, None));
                }
            }
            v.push(make_case(&[vec![L::SendWSnd, L::SendWSnd], vec![L::SendWSnd]], mb, work, false, false, None));
            v.push(make_case(&[vec![L::SendWSnd], vec![L::SendAddr, L::SendWSnd]], mb, work, false, true, None));
            v.push(make_case(&[vec![L::SendWSnd, L::SendWSnd]], mb, work, true, false, None));
        }
    }
    CTX_MADE.with(|c| c.set(false));
    if tier == Tier::Thorough {
        for &mb in &mbs {
            for &work in &works[..2] {
                for a in seqs(&senders, 2) {
                    for b in seqs(&mixed, 2) {
                        v.push(make_case(&[a.clone(), b], mb, work, false, false, None));
                    }
                }
                for a in seqs(&[L::SendAddr, L::SendSnd], 1) {
                    for b in seqs(&[L::SendAddr, L::SendWSnd], 1) {
                        for c in seqs(&[L::SendAddr, L::CallAddr], 1) {
                            for d in seqs(&[L::SendSnd, L::ForceWSnd], 1) {
                                v.push(make_case(&[a.clone(), b.clone(), c.clone(), d], mb, work, false, false, Some(7)));
                            }
                        }
                    }
                }
            }
        }
    }
    v
}

/// The family on the plain event loop, plus (every third case in the quick tier, all of them in
/// the thorough tier) the same programs on the stream loop: the actor is attached to a stream
/// that stays open and never yields, so `create_loop_on_stream` serves the mailbox.
fn cases(tier: Tier) -> Vec<Case> {
    let mut v = plain_cases(tier);
    let s = crate::progscene::with_stream_variant(|| plain_cases(tier));
    v.extend(s.into_iter().enumerate().filter(|(i, c)| (tier == Tier::Thorough || i % 3 == 0)).map(|(_, mut c)| {
        // the attached stream is never ready, so the loop's select! tie-break cannot change anything:
        // it is not explored as a choice here (C13 explores it, with streams that do yield)
        c.exec.select_choice = false;
        c
    }));
    // ... and (every fourth case; thorough: every second) once more under a configuration that must
    // not matter: a handler timeout nothing comes near, and the recreate strategy
    let nv = crate::progscene::Variant { generous_timeout: true, recreate: true, builder_order: 0, owner_dropped: false };
    let n = crate::progscene::with_variant(nv, || plain_cases(tier));
    let step = if tier == Tier::Thorough { 2 } else { 4 };
    v.extend(n.into_iter().enumerate().filter(|(i, _)| i % step == 1).map(|(_, mut c)| {
        // no handler takes anywhere near 50 ticks, so the timeout's select! never has both arms ready
        c.exec.select_choice = false;
        c
    }));
    v
}

pub fn property() -> Property {
    Property {
        id: "C12",
        cases,
        clauses: &["live-actor-accepts", "backpressure-bound", "unbounded-send-never-waits", "stop-never-waits"],
        full_rerun_check: true,
        assumptions: &["'taken out of its mailbox' is observed as handler entry, which happens in the same step as the dequeue"],
    }
}
