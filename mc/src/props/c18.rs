//! C18: spawn / detach / join behave identically on tokio, async-std and smol.
//!
//! The same family of programs is explored on three builds of the harness (one per runtime
//! feature; each spawner runs unchanged on top of its shim). Per execution: the spawned actor
//! answers a call issued after the spawn expression returned. Per program: the set of outcomes
//! over all schedules is exported and compared across the three builds by `mc c18-compare`.

use std::{cell::RefCell, collections::BTreeMap};

use hannibal::{
    prelude::*,
    spawner::{DefaultSpawnable, DefaultSpawner, SpawnableWith},
    Addr, OwningAddr,
};

use crate::{
    check::{outcome_hash, Case, Property, Scene, Tier, Trace, Violation},
    ops::{run_client, Handles, Op, H},
    scenes::{block_inline, HStream, STREAM},
    trace::An,
    vexec::{Exec, ExecCfg},
    world::{Action, Cb, Ev, Probe, RoleCfg, P, W},
};

pub const RUNTIME: &str = if cfg!(feature = "rt-tokio") {
    "tokio"
} else if cfg!(feature = "rt-async") {
    "async-std"
} else {
    "smol"
};

#[derive(Clone, Copy, Debug, PartialEq, Eq)]
pub enum Entry {
    Spawn,
    SpawnOwning,
    SpawnDefault,
    DefaultSpawnOwning,
    SpawnOnStream,
    SpawnOwningOnStream,
    SpawnWith,
    BuildUnboundedSpawn,
    BuildUnboundedSpawnOwning,
    BuildBoundedSpawn,
    BuildBoundedSpawnOwning,
    BuildRecreateSpawn,
    BuildRecreateSpawnOwning,
    BuildNonRestartableSpawn,
    BuildNonRestartableSpawnOwning,
    BuildOnStreamSpawn,
    BuildOnStreamSpawnOwning,
    BuildBoundedOnStreamSpawn,
    BuildBoundedOnStreamSpawnOwning,
    BuildRegister,
    AddrRegister,
    FromRegistry,
    Setup,
    /// from_registry() a second time, after the first instance has been stopped and awaited: the
    /// registry spawns (and keeps) a fresh one
    FromRegistryAgain,
}

pub const ENTRIES: [Entry; 24] = [
    Entry::Spawn,
    Entry::SpawnOwning,
    Entry::SpawnDefault,
    Entry::DefaultSpawnOwning,
    Entry::SpawnOnStream,
    Entry::SpawnOwningOnStream,
    Entry::SpawnWith,
    Entry::BuildUnboundedSpawn,
    Entry::BuildUnboundedSpawnOwning,
    Entry::BuildBoundedSpawn,
    Entry::BuildBoundedSpawnOwning,
    Entry::BuildRecreateSpawn,
    Entry::BuildRecreateSpawnOwning,
    Entry::BuildNonRestartableSpawn,
    Entry::BuildNonRestartableSpawnOwning,
    Entry::BuildOnStreamSpawn,
    Entry::BuildOnStreamSpawnOwning,
    Entry::BuildBoundedOnStreamSpawn,
    Entry::BuildBoundedOnStreamSpawnOwning,
    Entry::BuildRegister,
    Entry::AddrRegister,
    Entry::FromRegistry,
    Entry::Setup,
    Entry::FromRegistryAgain,
];

#[derive(Clone, Copy, Debug, PartialEq, Eq)]
pub enum Prog {
    /// just call
    Call,
    /// drop everything the entry point returned except one plain Addr, then call
    DropOthersCall,
    /// detach the owner, call
    DetachCall,
    /// stop, await, join
    StopAwaitJoin,
    /// an interval of period 1 ticks three times within three periods
    Ticks,
    /// the same with timers of half a millisecond: an interval that ticks three times, a one-shot
    /// after it (no runtime's timer fires early or turns a short wait into none)
    SubMsTicks,
    /// timers armed with durations nobody will see the end of (Duration::MAX, 2^62 s): they stay
    /// armed, quietly, while the actor answers calls, and go when it goes
    HugeTimers,
    /// call, then let the last handle go: the actor stops gracefully
    CallDropAll,
    /// a handler panics; then await the address and join
    PanicAwaitJoin,
    /// create a join future, drop it unpolled, detach the owner, call
    AbandonJoinDetachCall,
    /// create a join future, drop it unpolled, keep a plain address, drop the owner, call
    AbandonJoinDropOwnerCall,
    /// a join future is created and simply kept (never polled) while the owner is detached
    PendingJoinDetachCall,
    /// a join is in flight (polled once, pending) when the owner is detached; then call
    InFlightJoinDetachCall,
    /// a join is in flight when a second join is started and polled; stop; both resolve
    InFlightJoinSecondJoin,
    /// keep a plain address; the owner is dropped by an unwinding (contained) panic; call
    UnwindDropOwnerCall,
    /// a join future is created (not polled), then the owner is dropped; stop through a plain
    /// address; the join future still yields the actor
    JoinStartDropOwnerStopAwait,
    /// consume_sync (stop + the join future, the owner is gone when it returns), then await it
    ConsumeSyncAwait,
    /// a join future is created, the owner detached; stop; the join future still yields the actor
    JoinStartDetachStopAwait,
    /// stop through a plain address, let the actor end, then consume: the stop inside consume is
    /// rejected, the value is still there. (On tokio the join handle's first poll may find the
    /// cooperative budget used up and answer Pending once - consume waits, as on every runtime.)
    ConsumeAfterTheEnd,
    /// the k-th owner script of C17's family (join / consume / consume_sync / detach / to_addr in
    /// every order C17 knows), with a submitter and a late stopper: whatever the owner sees, it
    /// sees the same on every runtime
    OwnerScript(u8),
}

pub const PROGS: [Prog; 19] = [
    Prog::ConsumeAfterTheEnd,
    Prog::SubMsTicks,
    Prog::HugeTimers,
    Prog::Call,
    Prog::DropOthersCall,
    Prog::DetachCall,
    Prog::StopAwaitJoin,
    Prog::Ticks,
    Prog::CallDropAll,
    Prog::PanicAwaitJoin,
    Prog::AbandonJoinDetachCall,
    Prog::AbandonJoinDropOwnerCall,
    Prog::PendingJoinDetachCall,
    Prog::InFlightJoinDetachCall,
    Prog::InFlightJoinSecondJoin,
    Prog::UnwindDropOwnerCall,
    Prog::JoinStartDropOwnerStopAwait,
    Prog::ConsumeSyncAwait,
    Prog::JoinStartDetachStopAwait,
];

enum Spawned {
    Addr(Addr<P>),
    Own(OwningAddr<P>),
    WithHandle(Addr<P>, hannibal::spawner::ActorHandle<P>),
}

fn new_stream() -> HStream {
    let st = HStream::default();
    STREAM.with(|s| *s.borrow_mut() = Some(st.clone()));
    st
}

/// Runs the spawn expression of an entry point. Registry entry points need lock acquisitions;
/// they run inside scene setup via `block_inline`.
fn spawn_via(e: Entry) -> Spawned {
    let probe = || Probe::<0>::new(0);
    match e {
        Entry::Spawn => Spawned::Addr(probe().spawn()),
        Entry::SpawnOwning => Spawned::Own(probe().spawn_owning()),
        Entry::SpawnDefault => Spawned::Addr(P::spawn_default().expect("spawn_default")),
        Entry::DefaultSpawnOwning => Spawned::Own(<P as DefaultSpawnable<DefaultSpawner>>::spawn_owning().expect("spawn_owning")),
        Entry::SpawnOnStream => Spawned::Addr(probe().spawn_on_stream(new_stream()).expect("spawn_on_stream")),
        Entry::SpawnOwningOnStream => Spawned::Own(probe().spawn_owning_on_stream(new_stream()).expect("spawn_owning_on_stream")),
        Entry::SpawnWith => {
            let (a, h) = probe().spawn_with::<DefaultSpawner>();
            Spawned::WithHandle(a, h)
        }
        Entry::BuildUnboundedSpawn => Spawned::Addr(hannibal::build(probe()).unbounded().spawn()),
        Entry::BuildUnboundedSpawnOwning => Spawned::Own(hannibal::build(probe()).unbounded().spawn_owning()),
        Entry::BuildBoundedSpawn => Spawned::Addr(hannibal::build(probe()).bounded(1).spawn()),
        Entry::BuildBoundedSpawnOwning => Spawned::Own(hannibal::build(probe()).bounded(1).spawn_owning()),
        Entry::BuildRecreateSpawn => Spawned::Addr(hannibal::build(probe()).unbounded().recreate_from_default().spawn()),
        Entry::BuildRecreateSpawnOwning => Spawned::Own(hannibal::build(probe()).unbounded().recreate_from_default().spawn_owning()),
        Entry::BuildNonRestartableSpawn => Spawned::Addr(hannibal::build(probe()).unbounded().non_restartable().spawn()),
        Entry::BuildNonRestartableSpawnOwning => Spawned::Own(hannibal::build(probe()).unbounded().non_restartable().spawn_owning()),
        Entry::BuildOnStreamSpawn => Spawned::Addr(hannibal::build(probe()).on_stream(new_stream()).spawn()),
        Entry::BuildOnStreamSpawnOwning => Spawned::Own(hannibal::build(probe()).on_stream(new_stream()).spawn_owning()),
        Entry::BuildBoundedOnStreamSpawn => Spawned::Addr(hannibal::build(probe()).bounded_on_stream(1, new_stream()).spawn()),
        Entry::BuildBoundedOnStreamSpawnOwning => Spawned::Own(hannibal::build(probe()).bounded_on_stream(1, new_stream()).spawn_owning()),
        Entry::BuildRegister | Entry::AddrRegister | Entry::FromRegistry | Entry::Setup | Entry::FromRegistryAgain => unreachable!("registry entry points run inside the client task (spawn_in_task)"),
    }
}

/// The client program of `prog`, for an entry point that returned an owner (`owning`) or a plain address.
fn ops_for(prog: Prog, owning: bool) -> Vec<Op> {
    let t = if owning { H::Own(0) } else { H::Addr(0) };
    match prog {
        Prog::Call => vec![Op::Call(t, 1), Op::Call(t, 2)],
        Prog::DropOthersCall => {
            if owning {
                vec![Op::ToAddr(H::Own(0)), Op::Drop(H::Own(0)), Op::Yield, Op::Call(H::Addr(0), 1)]
            } else {
                // (for spawn_with the ActorHandle is dropped below, before the client runs)
                vec![Op::Clone(H::Addr(0)), Op::Drop(H::Addr(0)), Op::Yield, Op::Call(H::Addr(1), 1)]
            }
        }
        Prog::DetachCall => {
            if owning {
                vec![Op::Detach(H::Own(0)), Op::Yield, Op::Call(H::Addr(0), 1)]
            } else {
                vec![Op::Yield, Op::Call(H::Addr(0), 1)]
            }
        }
        Prog::StopAwaitJoin => {
            if owning {
                vec![Op::Call(t, 1), Op::ToAddr(H::Own(0)), Op::Stop(H::Addr(0)), Op::Await(H::Addr(0)), Op::Join(H::Own(0))]
            } else {
                vec![Op::Call(t, 1), Op::Clone(H::Addr(0)), Op::Stop(H::Addr(0)), Op::Await(H::Addr(1))]
            }
        }
        Prog::Ticks | Prog::SubMsTicks | Prog::HugeTimers => vec![Op::Sleep(4), Op::Call(t, 1)],
        Prog::CallDropAll => vec![Op::Call(t, 1)],
        Prog::AbandonJoinDetachCall => {
            if owning {
                vec![Op::Call(t, 1), Op::JoinStart(H::Own(0)), Op::JoinDrop(0), Op::Detach(H::Own(0)), Op::Yield, Op::Call(H::Addr(0), 2)]
            } else {
                vec![Op::Call(t, 1), Op::Yield, Op::Call(t, 2)]
            }
        }
        Prog::AbandonJoinDropOwnerCall => {
            if owning {
                vec![Op::Call(t, 1), Op::JoinStart(H::Own(0)), Op::JoinDrop(0), Op::ToAddr(H::Own(0)), Op::Drop(H::Own(0)), Op::Yield, Op::Call(H::Addr(0), 2)]
            } else {
                vec![Op::Call(t, 1), Op::Yield, Op::Call(t, 2)]
            }
        }
        Prog::PendingJoinDetachCall => {
            if owning {
                vec![Op::Call(t, 1), Op::JoinStart(H::Own(0)), Op::Detach(H::Own(0)), Op::Yield, Op::Call(H::Addr(0), 2)]
            } else {
                vec![Op::Call(t, 1), Op::Yield, Op::Call(t, 2)]
            }
        }
        Prog::InFlightJoinDetachCall => {
            if owning {
                vec![Op::Call(t, 1), Op::JoinStart(H::Own(0)), Op::JoinPollOnce(0), Op::Detach(H::Own(0)), Op::Yield, Op::Call(H::Addr(0), 2)]
            } else {
                vec![Op::Call(t, 1), Op::Yield, Op::Call(t, 2)]
            }
        }
        Prog::InFlightJoinSecondJoin => {
            if owning {
                vec![
                    Op::Call(t, 1),
                    Op::JoinStart(H::Own(0)),
                    Op::JoinPollOnce(0),
                    Op::JoinStart(H::Own(0)),
                    Op::JoinPollOnce(1),
                    Op::ToAddr(H::Own(0)),
                    Op::Stop(H::Addr(0)),
                    Op::JoinAwait(0),
                ]
            } else {
                vec![Op::Call(t, 1), Op::Yield, Op::Call(t, 2)]
            }
        }
        Prog::UnwindDropOwnerCall => {
            if owning {
                vec![Op::Call(t, 1), Op::ToAddr(H::Own(0)), Op::DropUnwinding(H::Own(0)), Op::Yield, Op::Call(H::Addr(0), 2)]
            } else {
                vec![Op::Call(t, 1), Op::Clone(H::Addr(0)), Op::DropUnwinding(H::Addr(0)), Op::Yield, Op::Call(H::Addr(1), 2)]
            }
        }
        Prog::JoinStartDropOwnerStopAwait => {
            if owning {
                vec![Op::Call(t, 1), Op::JoinStart(H::Own(0)), Op::ToAddr(H::Own(0)), Op::Drop(H::Own(0)), Op::Yield, Op::Call(H::Addr(0), 2), Op::Stop(H::Addr(0)), Op::JoinAwait(0)]
            } else {
                vec![Op::Call(t, 1), Op::Yield, Op::Call(t, 2)]
            }
        }
        Prog::ConsumeSyncAwait => {
            if owning {
                vec![Op::Call(t, 1), Op::ConsumeSync(H::Own(0)), Op::JoinAwait(0)]
            } else {
                vec![Op::Call(t, 1), Op::Yield, Op::Call(t, 2)]
            }
        }
        Prog::ConsumeAfterTheEnd => {
            if owning {
                vec![Op::Call(t, 1), Op::ToAddr(H::Own(0)), Op::Stop(H::Addr(0)), Op::Sleep(3), Op::Consume(H::Own(0))]
            } else {
                vec![Op::Call(t, 1), Op::Yield, Op::Call(t, 2)]
            }
        }
        Prog::JoinStartDetachStopAwait => {
            if owning {
                vec![Op::Call(t, 1), Op::JoinStart(H::Own(0)), Op::Detach(H::Own(0)), Op::Yield, Op::Call(H::Addr(0), 2), Op::Stop(H::Addr(0)), Op::JoinAwait(0)]
            } else {
                vec![Op::Call(t, 1), Op::Yield, Op::Call(t, 2)]
            }
        }
        Prog::OwnerScript(k) => {
            if owning {
                crate::props::c17::owner_scripts()[k as usize].1.clone()
            } else {
                vec![Op::Call(t, 1), Op::Yield, Op::Call(t, 2)]
            }
        }
        Prog::PanicAwaitJoin => {
            if owning {
                vec![Op::Call(t, 1), Op::ToAddr(H::Own(0)), Op::Send(H::Own(0), 66), Op::Await(H::Addr(0)), Op::Join(H::Own(0))]
            } else {
                vec![Op::Call(t, 1), Op::Clone(H::Addr(0)), Op::Send(H::Addr(0), 66), Op::Await(H::Addr(1))]
            }
        }
    }
}

/// The registry entry points run inside the client task: they acquire the registry lock (a
/// scheduling point) and - in some builds, or after a change to the library - await the fresh
/// service, neither of which can complete inside scene setup, where no task runs.
async fn spawn_in_task(e: Entry) -> Addr<P> {
    let probe = || Probe::<0>::new(0);
    match e {
        Entry::BuildRegister => hannibal::build(probe()).unbounded().register().await.expect("register").0,
        Entry::AddrRegister => probe().spawn().register().await.expect("register").0,
        Entry::FromRegistry => P::from_registry().await,
        Entry::FromRegistryAgain => {
            let mut first = P::from_registry().await;
            let _ = first.stop();
            let _ = first.await;
            P::from_registry().await
        }
        _ => {
            P::setup().await.expect("setup");
            P::try_from_registry().expect("registered after setup")
        }
    }
}

struct S {
    entry: Entry,
    prog: Prog,
    outcomes: RefCell<BTreeMap<u64, String>>,
}

impl Scene for S {
    fn roles(&self) -> Vec<RoleCfg> {
        let mut r = RoleCfg::default();
        if self.prog == Prog::Ticks {
            r.started_actions.push(Action::Interval { timer: 1, period: 1 });
        }
        if self.prog == Prog::HugeTimers {
            r.started_actions.push(Action::DelayedExec { timer: 3, delay: crate::world::FOREVER });
            r.started_actions.push(Action::Interval { timer: 4, period: crate::world::AGES });
            r.started_actions.push(Action::DelayedSend { timer: 5, delay: crate::world::FOREVER });
            r.started_actions.push(Action::IntervalWith { timer: 6, period: crate::world::FOREVER });
        }
        if self.prog == Prog::SubMsTicks {
            r.started_actions.push(Action::Interval { timer: 1, period: 1 });
            r.started_actions.push(Action::DelayedSend { timer: 2, delay: 1 });
        }
        r.work.push((66, crate::world::Work { panic: true, ..Default::default() }));
        vec![r]
    }

    fn pre(&self) {
        use futures::FutureExt as _;
        let _ = Addr::<P>::unregister().now_or_never();
    }

    fn setup(&self, exec: &Exec) {
        W.with(|w| {
            let mut w = w.borrow_mut();
            w.default_role[0] = 0;
            if self.prog == Prog::SubMsTicks {
                w.tick_us = 500;
            }
        });
        STREAM.with(|s| *s.borrow_mut() = None);
        if matches!(self.entry, Entry::BuildRegister | Entry::AddrRegister | Entry::FromRegistry | Entry::Setup | Entry::FromRegistryAgain) {
            let (entry, prog) = (self.entry, self.prog);
            exec.spawn_client(0, async move {
                let a = spawn_in_task(entry).await;
                let mut h = Handles::default();
                h.addr.push(Some(a));
                run_client(0, h, ops_for(prog, false)).await;
                // the client has let go of everything it got: a registered service is kept by
                // the registry, so it is still running (operation 900 of the log)
                crate::world::log(Ev::Begin { c: 0, i: 900 });
                let running = P::already_running().await == Some(true);
                crate::world::log(Ev::End { c: 0, i: 900, r: crate::world::Res::Bool(running) });
            });
            return;
        }
        let mut h = Handles::default();
        let mut keep_handle = None;
        match spawn_via(self.entry) {
            Spawned::Addr(a) => h.addr.push(Some(a)),
            Spawned::Own(o) => h.own.push(Some(o)),
            Spawned::WithHandle(a, handle) => {
                h.addr.push(Some(a));
                keep_handle = Some(handle);
            }
        }
        let owning = !h.own.is_empty();
        let ops = ops_for(self.prog, owning);
        if let (Prog::OwnerScript(k), true) = (self.prog, owning) {
            // a submitter, a stopper that comes once the owner's joins are pending, and - for the
            // scripts that hand a join future to a second task - that task
            let base = h.own[0].as_ref().expect("owner").to_addr();
            exec.spawn_client(2, run_client(2, Handles::with_addr(base.clone()), vec![Op::Send(H::Addr(0), 31), Op::Call(H::Addr(0), 32)]));
            exec.spawn_client(3, run_client(3, Handles::with_addr(base), vec![Op::Sleep(3), Op::Stop(H::Addr(0))]));
            if crate::props::c17::owner_scripts()[k as usize].0.contains("two-tasks") {
                exec.spawn_client(4, run_client(4, Handles::default(), vec![Op::Sleep(1), Op::JoinTake, Op::JoinAwait(0)]));
            }
        }
        match (self.prog, keep_handle) {
            (Prog::DropOthersCall, Some(handle)) => drop(handle),
            (Prog::DetachCall, Some(handle)) => handle.detach(),
            (Prog::UnwindDropOwnerCall, Some(handle)) => {
                let _ = std::panic::catch_unwind(std::panic::AssertUnwindSafe(move || {
                    let _held = handle;
                    panic!("panic while holding the raw actor handle (contained)");
                }));
            }
            (_, Some(handle)) => {
                // keep the raw handle alive for the whole run
                exec.spawn_client(1, async move {
                    crate::world::sleep(20).await;
                    drop(handle);
                });
            }
            _ => {}
        }
        exec.spawn_client(0, run_client(0, h, ops));
    }

    fn check(&self, t: &Trace) -> Vec<Violation> {
        let an = An::new(t.log);
        let mut out = vec![];
        // the spawned actor keeps running after the spawn expression returned: the call issued
        // afterwards is answered (in every program the call precedes any stop)
        for o in &an.ops {
            let is_call = t.log.get(o.begin).is_some() && matches!(o.res, Some(crate::world::Res::Reply(_)) | Some(crate::world::Res::Err(_)) | Some(crate::world::Res::Panicked));
            let call_op = match self.prog {
                Prog::Call => o.i <= 1,
                Prog::DropOthersCall => o.i == 3,
                Prog::DetachCall => (o.i == 2 && an.ops.len() > 3) || (o.i == 1 && an.ops.len() <= 3),
                Prog::StopAwaitJoin => o.i == 0,
                Prog::Ticks | Prog::SubMsTicks | Prog::HugeTimers => o.i == 1,
                Prog::CallDropAll | Prog::PanicAwaitJoin => o.i == 0,
                Prog::AbandonJoinDetachCall | Prog::AbandonJoinDropOwnerCall | Prog::PendingJoinDetachCall | Prog::InFlightJoinDetachCall | Prog::UnwindDropOwnerCall => true,
                Prog::JoinStartDropOwnerStopAwait | Prog::ConsumeSyncAwait | Prog::JoinStartDetachStopAwait => true,
                // (the owner scripts stop, consume and detach at will: only the comparison across
                // the runtimes speaks about them)
                Prog::OwnerScript(_) => false,
                Prog::InFlightJoinSecondJoin | Prog::ConsumeAfterTheEnd => o.i == 0,
            };
            if o.c == 0 && call_op && is_call {
                crate::check::oblige("actor-runs-after-spawn-returned");
            }
            if o.c == 0 && call_op && is_call && !o.ok() {
                out.push(Violation {
                    clause: "actor-runs-after-spawn-returned",
                    key: format!("C18/{RUNTIME}/call-after-spawn-failed/entry={:?}/program={:?}", self.entry, self.prog),
                    detail: format!("on {RUNTIME}: the call issued after {:?} returned gave {:?}", self.entry, o.res),
                });
            }
            if o.c == 0 && o.end.is_none() {
                out.push(Violation {
                    clause: "operations-resolve",
                    key: format!("C18/{RUNTIME}/hang/entry={:?}/program={:?}", self.entry, self.prog),
                    detail: format!("on {RUNTIME}: client op {} never resolved", o.i),
                });
            }
            if matches!(o.res, Some(crate::world::Res::Panicked)) {
                out.push(Violation {
                    clause: "no-panic-in-client",
                    key: format!("C18/{RUNTIME}/client-panicked/entry={:?}/program={:?}", self.entry, self.prog),
                    detail: format!("on {RUNTIME}: client op {} panicked", o.i),
                });
            }
        }
        if let Some(o) = an.op(0, 900) {
            if !matches!(self.prog, Prog::StopAwaitJoin | Prog::PanicAwaitJoin) {
                crate::check::oblige("actor-runs-after-spawn-returned");
                if o.res != Some(crate::world::Res::Bool(true)) {
                    out.push(Violation {
                        clause: "actor-runs-after-spawn-returned",
                        key: format!("C18/{RUNTIME}/registered-service-gone/entry={:?}/program={:?}", self.entry, self.prog),
                        detail: format!("on {RUNTIME}: after {:?} returned and its caller let go of the address, the registry does not report the service as running ({:?})", self.entry, o.res),
                    });
                }
            }
        }
        if t.res.end == crate::vexec::EndReason::Spin {
            out.push(Violation {
                clause: "operations-resolve",
                key: format!("C18/{RUNTIME}/task-never-yields/entry={:?}/program={:?}", self.entry, self.prog),
                detail: format!("on {RUNTIME}: a task of the library went through thousands of zero-length timers without yielding once - the thread that runs it is lost and the program hangs"),
            });
        }
        if self.prog == Prog::SubMsTicks {
            // half a millisecond is not nothing: no timer fires at the instant it was registered
            let registered = an.enters.iter().find(|s| s.a == 0 && s.cb == Cb::Started).map(|s| s.time).unwrap_or(0);
            for e in an.enters.iter().filter(|e| matches!(e.cb, Cb::Tick { .. })) {
                crate::check::oblige("timers-work");
                if e.time <= registered {
                    out.push(Violation {
                        clause: "timers-work",
                        key: format!("C18/{RUNTIME}/short-wait-became-none/entry={:?}", self.entry),
                        detail: format!("on {RUNTIME}: {:?} was handled at t={}, the instant its timer of half a millisecond was registered", e.cb, e.time),
                    });
                }
            }
        }
        if self.prog == Prog::HugeTimers {
            crate::check::oblige("timers-work");
            let going = an.enters.iter().find(|e| e.a == 0 && e.cb == Cb::Stopped).map(|e| e.idx).into_iter().chain(an.task_end(0).map(|(i, _)| i)).min();
            if let Some(d) = t.log.iter().position(|e| matches!(e.ev, Ev::Ctx { a: 0, op: crate::world::CtxOp::ExecDropped(3), .. })) {
                if going.is_none_or(|g| d < g) {
                    out.push(Violation {
                        clause: "timers-work",
                        key: format!("C18/{RUNTIME}/huge-timer-gave-up/entry={:?}", self.entry),
                        detail: format!("on {RUNTIME}: the future given to delayed_exec(.., Duration::MAX) was dropped at t={} while its actor was alive", t.log[d].time),
                    });
                }
            }
            if let Some(e) = an.enters.iter().find(|e| matches!(e.cb, Cb::Tick { .. } | Cb::Exec { .. })) {
                out.push(Violation {
                    clause: "timers-work",
                    key: format!("C18/{RUNTIME}/huge-timer-fired/entry={:?}", self.entry),
                    detail: format!("on {RUNTIME}: {:?} was handled at t={} - its timer was armed for ages", e.cb, e.time),
                });
            }
        }
        if matches!(self.prog, Prog::Ticks | Prog::SubMsTicks) {
            let ticks = an.enters.iter().filter(|e| matches!(e.cb, Cb::Tick { timer: 1, .. }) && e.time <= 3).count();
            if ticks != 3 {
                out.push(Violation {
                    clause: "timers-work",
                    key: format!("C18/{RUNTIME}/ticks/entry={:?}", self.entry),
                    detail: format!("on {RUNTIME}: {ticks} ticks of a period-1 interval within 3 periods"),
                });
            }
        }
        out
    }

    fn observe(&self, t: &Trace) {
        let h = outcome_hash(t.log);
        let mut m = self.outcomes.borrow_mut();
        if !m.contains_key(&h) && m.len() < 4096 {
            let rendered = t
                .log
                .iter()
                .filter_map(|e| match e.ev {
                    Ev::Begin { .. } | Ev::X(_) | Ev::New { .. } => None,
                    ev => Some(format!("{ev:?}")),
                })
                .collect::<Vec<_>>()
                .join("; ");
            m.insert(h, rendered);
        }
    }

    fn export(&self) -> Option<serde_json::Value> {
        let m = self.outcomes.borrow();
        Some(serde_json::json!(m.iter().map(|(h, r)| serde_json::json!([format!("{h:016x}"), r])).collect::<Vec<_>>()))
    }
}

fn cases(tier: Tier) -> Vec<Case> {
    let mut v = vec![];
    for entry in ENTRIES {
        let owning_entry = matches!(
            entry,
            Entry::SpawnOwning | Entry::DefaultSpawnOwning | Entry::SpawnOwningOnStream | Entry::BuildUnboundedSpawnOwning | Entry::BuildBoundedSpawnOwning | Entry::BuildRecreateSpawnOwning | Entry::BuildNonRestartableSpawnOwning | Entry::BuildOnStreamSpawnOwning | Entry::BuildBoundedOnStreamSpawnOwning
        );
        let mut progs: Vec<Prog> = PROGS.to_vec();
        if owning_entry {
            progs.extend((0..crate::props::c17::owner_scripts().len() as u8).map(Prog::OwnerScript));
        }
        for prog in progs {
            let _ = tier;
            v.push(Case {
                desc: format!("runtime-equivalence entry={entry:?} program={prog:?}"),
                exec: ExecCfg {
                    horizon: if matches!(prog, Prog::Ticks | Prog::SubMsTicks | Prog::HugeTimers) { 4 } else { 25 },
                    spin_is_outcome: true,
                    real_crosscheck: !matches!(prog, Prog::SubMsTicks | Prog::HugeTimers),
                    // programs that poll a join future exactly once see whether the handle's lock suspends
                    // (the budget of tokio's cooperative scheduling is a choice where a finished task
                    // is joined; the uncontended lock in front of the handle does not suspend)
                    coop_is_choice: prog == Prog::ConsumeAfterTheEnd,
                    yield_at_lock: prog != Prog::ConsumeAfterTheEnd,
                    lock_yield_is_choice: matches!(prog, Prog::InFlightJoinDetachCall | Prog::InFlightJoinSecondJoin) || matches!(prog, Prog::OwnerScript(k) if crate::props::c17::owner_scripts()[k as usize].0.contains("polled")),
                    ..ExecCfg::default()
                },
                bound: None,
                scene: Box::new(S { entry, prog, outcomes: RefCell::new(BTreeMap::new()) }),
            });
        }
    }
    v
}

pub fn property() -> Property {
    Property {
        id: "C18",
        cases,
        clauses: &["actor-runs-after-spawn-returned"],
        full_rerun_check: true,
        assumptions: &[
            "each runtime is represented by its shim in src/verif.rs (tokio: drop = detach, JoinError on panic/cancel; async-std: drop = detach, awaiting a failed task panics; smol: drop = cancel, detach() = run on); the shims are bound to the real runtimes by `mc conformance`, run in setup and by this check",
            "wall-clock behaviour is out of scope: timers run on the virtual clock on all three",
        ],
    }
}
