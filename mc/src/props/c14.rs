//! C14: stopped() / running() tell the truth without anyone awaiting the actor.

use crate::{
    check::{Case, Property, Scene, Tier, Trace, Violation},
    ops::{run_client, Handles, Op, H},
    scenes::{spawn_probe, Mailbox, SpawnCfg, Strat},
    vexec::{Exec, ExecCfg},
    world::{Action, Ev, Res, RoleCfg, StartBeh, Work, XEv},
};

#[derive(Clone, Copy, Debug, PartialEq, Eq)]
pub enum Cause {
    Stop,
    DropAll,
    CtxStop,
    HandlerPanic,
    StartErr,
    StartPanic,
    StoppedPanic,
    TimeoutFail,
    Cancel(u32),
}

#[derive(Clone, Copy, Debug, PartialEq, Eq)]
enum Awaiting {
    Nobody,
    Await,
    PollOnce,
}

#[derive(Clone, Copy, Debug, PartialEq, Eq)]
enum Observer {
    Addr,
    Weak,
    CloneAtQuery,
    /// the observer awaits its own handle by reference, then queries that very handle
    AwaitedByRef,
}

struct S {
    cause: Cause,
    awaiting: Awaiting,
    obs: Observer,
    mailbox: Mailbox,
    /// the actor is restarted (and has answered a ping afterwards) before anything else happens:
    /// 0 = never, 1 = Addr::restart with the default strategy, 2 = with RecreateFromDefault,
    /// 3 = from its own context. The handles the observers use were all made before the restart.
    restarted: u8,
}

impl Scene for S {
    fn roles(&self) -> Vec<RoleCfg> {
        let mut r = RoleCfg::default();
        match self.cause {
            Cause::HandlerPanic => r.work.push((99, Work { panic: true, ..Work::default() })),
            Cause::TimeoutFail => r.work.push((99, Work { sleep: 5, ..Work::default() })),
            Cause::StartErr => r.started.push(StartBeh::Err),
            Cause::StartPanic => r.started.push(StartBeh::Panic),
            Cause::StoppedPanic => r.stopped_panic = true,
            _ => {}
        }
        r.stopped_yields = 1;
        vec![r]
    }

    fn setup(&self, exec: &Exec) {
        let cfg = SpawnCfg {
            mailbox: self.mailbox,
            strat: if self.restarted == 2 { Strat::Recreate } else { Strat::Default },
            timeout: if self.cause == Cause::TimeoutFail { Some((2, true)) } else { None },
        };
        let addr = spawn_probe(0, cfg).detach();
        // terminator
        let mut t_ops = match self.restarted {
            0 => vec![],
            3 => vec![Op::Cmd(H::Addr(0), 7, Action::Restart), Op::Ping(H::Addr(0)), Op::Sleep(3)],
            _ => vec![Op::Restart(H::Addr(0)), Op::Ping(H::Addr(0)), Op::Sleep(3)],
        };
        t_ops.extend(match self.cause {
            Cause::Stop | Cause::StoppedPanic | Cause::Cancel(_) => vec![Op::Send(H::Addr(0), 1), Op::Stop(H::Addr(0))],
            Cause::DropAll => vec![Op::Send(H::Addr(0), 1)],
            Cause::CtxStop => vec![Op::Cmd(H::Addr(0), 2, Action::Stop)],
            Cause::HandlerPanic | Cause::TimeoutFail => vec![Op::Send(H::Addr(0), 99)],
            Cause::StartErr | Cause::StartPanic => vec![Op::Send(H::Addr(0), 1)],
        });
        // observer: two rounds of queries
        let strong_obs = self.cause != Cause::DropAll;
        let mut oh = Handles::default();
        oh.waddr.push(Some(addr.downgrade()));
        if strong_obs {
            oh.addr.push(Some(addr.clone()));
        }
        let o_ops = self.observer_ops();
        // awaiter
        let a_ops = match self.awaiting {
            Awaiting::Nobody => vec![],
            Awaiting::Await => vec![Op::Await(H::Addr(0))],
            Awaiting::PollOnce => vec![Op::PollOnce(H::Addr(0)), Op::Drop(H::Addr(0))],
        };
        let ah = if a_ops.is_empty() { Handles::default() } else { Handles::with_addr(addr.clone()) };
        exec.spawn_client(0, run_client(0, Handles::with_addr(addr), t_ops));
        exec.spawn_client(1, run_client(1, oh, o_ops));
        if !a_ops.is_empty() {
            exec.spawn_client(2, run_client(2, ah, a_ops));
        }
    }

    fn check(&self, t: &Trace) -> Vec<Violation> {
        let mut out = vec![];
        // the actor task is the first task spawned through the backend
        let actor_task = t.log.iter().find_map(|e| match e.ev {
            Ev::X(XEv::Spawn { task, client: false, .. }) => Some(task),
            _ => None,
        });
        let term_idx = actor_task.and_then(|at| {
            t.log.iter().position(|e| matches!(e.ev, Ev::X(XEv::End { task, .. }) if task == at))
        });
        for e in t.log.iter() {
            if let Ev::End { c: 1, i: opi, r: Res::Panicked } = e.ev {
                out.push(Violation {
                    clause: "liveness-query-truthful",
                    key: format!("C14/query-panics/obs={:?}/awaiting={:?}", self.obs, self.awaiting),
                    detail: format!("observer operation {opi} panicked (cause {:?})", self.cause),
                });
            }
        }
        for (i, e) in t.log.iter().enumerate() {
            if let Ev::End { c: 1, i: opi, r: Res::Bool(b) } = e.ev {
                let after = term_idx.is_some_and(|ti| i > ti);
                crate::check::oblige(if after { "truthful-after-termination" } else { "truthful-before-termination" });
                // which query was it? Running(..) answers are the negation
                let is_running_query = self.is_running_query(opi);
                let says_stopped = if is_running_query { !b } else { b };
                if says_stopped != after {
                    let what = if is_running_query { "running" } else { "stopped" };
                    out.push(Violation {
                        clause: "liveness-query-truthful",
                        key: format!(
                            "C14/{what}()-wrong-{}/obs={:?}/awaiting={:?}",
                            if after { "after-termination" } else { "before-termination" },
                            self.obs,
                            self.awaiting
                        ),
                        detail: format!(
                            "{what}() returned {b} {} the actor terminated (cause {:?})",
                            if after { "after" } else { "before" },
                            self.cause
                        ),
                    });
                }
            }
        }
        // the actor must have terminated in every run of this family (sanity of the scene)
        if term_idx.is_none() {
            out.push(Violation {
                clause: "scene-terminates",
                key: format!("C14/actor-did-not-terminate/cause={:?}", self.cause),
                detail: "the actor task was still alive at quiescence".into(),
            });
        }
        out
    }
}

impl S {
    /// three rounds of queries: at once, after a yield, and after everything has settled
    fn observer_ops(&self) -> Vec<Op> {
        let mut ops = vec![];
        let mut next_clone = 1u8;
        for round in 0..3 {
            match self.obs {
                Observer::Addr => ops.extend([Op::Stopped(H::Addr(0)), Op::Running(H::Addr(0))]),
                Observer::Weak => ops.push(Op::Stopped(H::WAddr(0))),
                Observer::CloneAtQuery => {
                    ops.extend([Op::Clone(H::Addr(0)), Op::Stopped(H::Addr(next_clone)), Op::Running(H::Addr(next_clone))]);
                    next_clone += 1;
                }
                Observer::AwaitedByRef => {
                    ops.extend([Op::Stopped(H::Addr(0)), Op::Running(H::Addr(0))]);
                    if round == 1 {
                        ops.push(Op::AwaitRef(H::Addr(0)));
                    }
                }
            }
            match round {
                0 => ops.push(Op::Yield),
                1 => ops.push(Op::Sleep(10)),
                _ => {}
            }
        }
        ops
    }

    fn is_running_query(&self, opi: u16) -> bool {
        matches!(self.observer_ops().get(opi as usize), Some(Op::Running(_)))
    }
}

/// The dependants: a registered service terminates (any cause) and nobody ever awaits it;
/// afterwards the registry must treat it as gone.
struct Reg {
    cause: Cause,
    /// instead of looking the service up, the client registers a new instance through the
    /// builder's register() terminal - which must see that the old one is gone
    register_again: bool,
    /// instead: `setup()` after the un-awaited termination - it brings a fresh instance up
    via_setup: bool,
}

impl Scene for Reg {
    fn roles(&self) -> Vec<RoleCfg> {
        let mut r = RoleCfg::default();
        match self.cause {
            Cause::HandlerPanic => r.work.push((99, Work { panic: true, ..Work::default() })),
            Cause::TimeoutFail => r.work.push((99, Work { sleep: 5, ..Work::default() })),
            Cause::StartErr => r.started.push(StartBeh::Err),
            Cause::StartPanic => r.started.push(StartBeh::Panic),
            Cause::StoppedPanic => r.stopped_panic = true,
            _ => {}
        }
        vec![r, RoleCfg::default(), RoleCfg::default(), RoleCfg::default(), RoleCfg::default()]
    }
    fn pre(&self) {
        use futures::FutureExt as _;
        let _ = hannibal::Addr::<crate::world::Probe<0>>::unregister().now_or_never();
    }
    fn setup(&self, exec: &Exec) {
        use hannibal::prelude::*;
        crate::world::W.with(|w| w.borrow_mut().default_role[0] = 4);
        let cfg = SpawnCfg {
            mailbox: Mailbox::U,
            strat: Strat::Default,
            timeout: if self.cause == Cause::TimeoutFail { Some((2, true)) } else { None },
        };
        let addr = spawn_probe(0, cfg).detach();
        let _ = crate::scenes::block_inline(addr.clone().register());
        let t_ops = match self.cause {
            Cause::Stop | Cause::StoppedPanic | Cause::Cancel(_) => vec![Op::Stop(H::Addr(0))],
            Cause::DropAll => vec![],
            Cause::CtxStop => vec![Op::Cmd(H::Addr(0), 2, Action::Stop)],
            Cause::HandlerPanic | Cause::TimeoutFail => vec![Op::Send(H::Addr(0), 99)],
            Cause::StartErr | Cause::StartPanic => vec![],
        };
        exec.spawn_client(0, run_client(0, Handles::with_addr(addr), t_ops));
        if self.via_setup {
            exec.spawn_client(6, async {
                use futures::FutureExt as _;
                let mut held: Option<hannibal::Addr<crate::world::Probe<0>>> = None;
                crate::world::log(crate::world::Ev::Begin { c: 6, i: 0 });
                crate::world::sleep(8).await;
                crate::world::log(crate::world::Ev::End { c: 6, i: 0, r: Res::Ok });
                for (k, op) in [crate::props::c08::ROp::Setup, crate::props::c08::ROp::AlreadyRunning, crate::props::c08::ROp::TryFromRegistry].iter().enumerate() {
                    let i = k as u16 + 1;
                    crate::world::log(crate::world::Ev::Begin { c: 6, i });
                    let r = std::panic::AssertUnwindSafe(crate::props::c08::reg_op::<0>(&mut held, *op)).catch_unwind().await.unwrap_or(Res::Panicked);
                    crate::world::log(crate::world::Ev::End { c: 6, i, r });
                }
            });
        } else if self.register_again {
            exec.spawn_client(6, async {
                use futures::FutureExt as _;
                let mut held: Option<hannibal::Addr<crate::world::Probe<0>>> = None;
                crate::world::log(crate::world::Ev::Begin { c: 6, i: 0 });
                crate::world::sleep(8).await;
                crate::world::log(crate::world::Ev::End { c: 6, i: 0, r: Res::Ok });
                for (k, op) in [crate::props::c08::ROp::BuildRegisterNew, crate::props::c08::ROp::AlreadyRunning].iter().enumerate() {
                    let i = k as u16 + 1;
                    crate::world::log(crate::world::Ev::Begin { c: 6, i });
                    let r = std::panic::AssertUnwindSafe(crate::props::c08::reg_op::<0>(&mut held, *op)).catch_unwind().await.unwrap_or(Res::Panicked);
                    crate::world::log(crate::world::Ev::End { c: 6, i, r });
                }
            });
        } else {
            exec.spawn_client(6, crate::props::c06::registry_client(6));
        }
    }
    fn check(&self, t: &Trace) -> Vec<Violation> {
        let an = crate::trace::An::new(t.log);
        let mut out = vec![];
        let ck = format!("{:?}", self.cause).split('(').next().unwrap_or("").to_string();
        // with DropAll the registry itself keeps the service alive: nothing to check then
        let terminated = an.task_end(0).is_some();
        if !terminated {
            return out;
        }
        crate::check::oblige("dependants-react");
        let r = |i: u16| an.op(6, i).and_then(|o| o.res);
        if self.via_setup {
            if let (Some(s), Some(ar), Some(tf)) = (r(1), r(2), r(3)) {
                let fresh = an.enters.iter().find(|e| e.a == 4 && e.cb == crate::world::Cb::Started).map(|e| e.inst);
                let ok = s == Res::Ok && ar == Res::OptBool(Some(true)) && matches!(tf, Res::Reg { present: true, ident: Some(i) } if Some(i) == fresh);
                if !ok {
                    out.push(Violation { clause: "dependants-react", key: format!("C14/setup-did-not-bring-the-service-up/cause={ck}"), detail: format!("after an un-awaited termination: setup() -> {s:?}, already_running -> {ar:?}, try_from_registry -> {tf:?} (fresh instance: {fresh:?})") });
                }
            }
            return out;
        }
        if self.register_again {
            if let Some(res) = r(1) {
                if !matches!(res, Res::Registered { replaced: true, .. }) {
                    out.push(Violation { clause: "dependants-react", key: format!("C14/register-over-terminated-refused/cause={ck}"), detail: format!("registering a new instance through the builder after an un-awaited termination returned {res:?}; expected success, handing back the dead entry") });
                }
            }
            if let (Some(Res::Registered { .. }), Some(res)) = (r(1), r(2)) {
                if res != Res::OptBool(Some(true)) {
                    out.push(Violation { clause: "dependants-react", key: format!("C14/register-over-terminated-refused/already_running/cause={ck}"), detail: format!("already_running after the new registration returned {res:?}") });
                }
            }
            return out;
        }
        if let Some(res) = r(1) {
            if !matches!(res, Res::Reg { present: false, .. }) {
                out.push(Violation { clause: "dependants-react", key: format!("C14/try_from_registry-returns-dead/cause={ck}"), detail: format!("try_from_registry after an un-awaited termination returned {res:?}") });
            }
        }
        if let Some(res) = r(2) {
            if res != Res::OptBool(Some(false)) {
                out.push(Violation { clause: "dependants-react", key: format!("C14/already_running-wrong/cause={ck}"), detail: format!("already_running after an un-awaited termination returned {res:?}") });
            }
        }
        if let Some(res) = r(3) {
            let fresh = an.enters.iter().find(|e| e.a == 4 && e.cb == crate::world::Cb::Started).map(|e| e.inst);
            if !matches!(res, Res::Reg { present: true, ident: Some(i) } if Some(i) == fresh) {
                out.push(Violation { clause: "dependants-react", key: format!("C14/no-respawn/cause={ck}"), detail: format!("from_registry after an un-awaited termination returned {res:?} (fresh instance: {fresh:?})") });
            }
        }
        // ... and the reaction is complete: the fresh instance has taken the dead one's place, so
        // the registry answers for it from now on (and does not spawn yet another one)
        let fresh = an.enters.iter().find(|e| e.a == 4 && e.cb == crate::world::Cb::Started).map(|e| e.inst);
        let spawned = t.log.iter().filter(|e| matches!(e.ev, crate::world::Ev::New { a: 4, .. })).count();
        if let (Some(f), Some(res)) = (fresh, r(4)) {
            if !matches!(res, Res::Reg { present: true, ident: Some(i) } if i == f) {
                out.push(Violation { clause: "dependants-react", key: format!("C14/respawned-not-registered/try_from_registry/cause={ck}"), detail: format!("try_from_registry after the respawn returned {res:?} (fresh instance {f})") });
            }
        }
        if let (Some(_), Some(res)) = (fresh, r(5)) {
            if res != Res::OptBool(Some(true)) {
                out.push(Violation { clause: "dependants-react", key: format!("C14/respawned-not-registered/already_running/cause={ck}"), detail: format!("already_running after the respawn returned {res:?}") });
            }
        }
        if let (Some(f), Some(res)) = (fresh, r(6)) {
            if !matches!(res, Res::Reg { present: true, ident: Some(i) } if i == f) || spawned != 1 {
                out.push(Violation { clause: "dependants-react", key: format!("C14/respawned-not-registered/second-from_registry/cause={ck}"), detail: format!("a second from_registry after the respawn returned {res:?}; {spawned} instance(s) were spawned on demand, fresh instance {f}") });
            }
        }
        out
    }
}

fn base_cases(tier: Tier) -> Vec<Case> {
    let mut v = vec![];
    let mut causes = vec![
        Cause::Stop,
        Cause::DropAll,
        Cause::CtxStop,
        Cause::HandlerPanic,
        Cause::StartErr,
        Cause::StartPanic,
        Cause::StoppedPanic,
        Cause::TimeoutFail,
    ];
    let max_cancel = if tier == Tier::Quick { 3 } else { 6 };
    for j in 1..=max_cancel {
        causes.push(Cause::Cancel(j));
    }
    let mailboxes: &[Mailbox] = if tier == Tier::Quick { &[Mailbox::U] } else { &[Mailbox::U, Mailbox::B(0), Mailbox::B(1)] };
    for &cause in &causes {
        if cause != Cause::DropAll {
            v.push(Case {
                desc: format!("dependants cause={cause:?}"),
                exec: ExecCfg { horizon: 30, cancel: if let Cause::Cancel(j) = cause { Some((0, j)) } else { None }, ..ExecCfg::default() },
                bound: None,
                scene: Box::new(Reg { cause, register_again: false, via_setup: false }),
            });
            v.push(Case {
                desc: format!("dependants [a new instance is registered through the builder] cause={cause:?}"),
                exec: ExecCfg { horizon: 30, cancel: if let Cause::Cancel(j) = cause { Some((0, j)) } else { None }, ..ExecCfg::default() },
                bound: None,
                scene: Box::new(Reg { cause, register_again: true, via_setup: false }),
            });
            v.push(Case {
                desc: format!("dependants [setup() after the termination] cause={cause:?}"),
                exec: ExecCfg { horizon: 30, cancel: if let Cause::Cancel(j) = cause { Some((0, j)) } else { None }, ..ExecCfg::default() },
                bound: None,
                scene: Box::new(Reg { cause, register_again: false, via_setup: true }),
            });
        }
        for awaiting in [Awaiting::Nobody, Awaiting::Await, Awaiting::PollOnce] {
            for obs in [Observer::Addr, Observer::Weak, Observer::CloneAtQuery, Observer::AwaitedByRef] {
                if cause == Cause::DropAll && (obs != Observer::Weak || awaiting == Awaiting::Await) {
                    continue;
                }
                for &mailbox in mailboxes {
                    let exec = ExecCfg {
                        cancel: if let Cause::Cancel(j) = cause { Some((0, j)) } else { None },
                        ..ExecCfg::default()
                    };
                    v.push(Case {
                        desc: format!("liveness cause={cause:?} awaiting={awaiting:?} obs={obs:?} mailbox={}", mailbox.name()),
                        exec,
                        bound: None,
                        scene: Box::new(S { cause, awaiting, obs, mailbox, restarted: 0 }),
                    });
                    // the same history after a processed restart (not for the causes in which the
                    // first start fails, and not with the one-shot cancellation point)
                    if matches!(cause, Cause::Stop | Cause::DropAll | Cause::CtxStop | Cause::HandlerPanic | Cause::StoppedPanic) {
                        let kinds: &[u8] = if tier == Tier::Quick && awaiting != Awaiting::Nobody { &[1] } else { &[1, 2, 3] };
                        for &restarted in kinds {
                            v.push(Case {
                                desc: format!("liveness [restarted first: {}] cause={cause:?} awaiting={awaiting:?} obs={obs:?} mailbox={}", ["", "Addr::restart", "Addr::restart, recreated", "Context::restart"][restarted as usize], mailbox.name()),
                                exec: ExecCfg::default(),
                                bound: None,
                                scene: Box::new(S { cause, awaiting, obs, mailbox, restarted }),
                            });
                        }
                    }
                }
            }
        }
    }
    v
}

fn cases(tier: Tier) -> Vec<Case> {
    // neutral re-configurations (see check::widen); the cause that needs a firing handler
    // timeout keeps its own configuration and has no counterpart on the stream loop
    let no_timeout = |d: &str| !d.contains("TimeoutFail");
    crate::check::widen(&|| base_cases(tier), &no_timeout, &|_| true, Some(&no_timeout))
}

pub fn property() -> Property {
    Property {
        id: "C14",
        cases,
        clauses: &["truthful-after-termination", "truthful-before-termination", "dependants-react"],
        full_rerun_check: true,
        assumptions: &["termination = the step in which the actor task ends (its stop notifier has fired or been dropped by then)"],
    }
}
