//! C01: mailbox is FIFO - sequential, in-order, at-most-once handling; state = fold.

use crate::{
    check::{Case, Property, Tier, Trace, Violation},
    ops::{Op, H},
    progscene::{ClientSpec, HInit, ProgScene, FULL},
    scenes::{Mailbox, SpawnCfg},
    trace::An,
    vexec::ExecCfg,
    world::{fold, Cb, Res, RoleCfg, Work, DIGEST0},
};

#[derive(Clone, Copy, Debug, PartialEq, Eq)]
pub enum L {
    SendAddr,
    SendSnd,
    CallCal,
    SendWSnd,
    CallWCal,
    CallAddr,
    Ping,
    ForceWSnd,
    SendOwn,
    CallOwn,
    /// a waiting send / a call whose future is polled once and dropped if it did not complete
    SendAbandon,
    CallAbandon,
    CallCalAbandon,
    /// Addr::restart - not a message: what was accepted before and after it keeps its order
    Restart,
    /// OwningAddr::ping
    PingOwn,
    /// a command message whose handler asks for the actor's own restart (Context::restart)
    CtxRestart,
    /// a command message whose handler posts a letter to its own actor (forcing / waiting path)
    SelfNote,
    SelfNoteWait,
}

pub const WAITING: [L; 5] = [L::SendAddr, L::SendSnd, L::CallCal, L::SendWSnd, L::CallWCal];
pub const FORCING: [L; 3] = [L::CallAddr, L::Ping, L::ForceWSnd];
pub const ALL: [L; 8] = [L::SendAddr, L::SendSnd, L::CallCal, L::SendWSnd, L::CallWCal, L::CallAddr, L::Ping, L::ForceWSnd];

pub fn to_op(l: L, id: u32) -> Op {
    match l {
        L::SendAddr => Op::Send(H::Addr(0), id),
        L::SendSnd => Op::Send(H::Snd(0), id),
        L::CallCal => Op::Call(H::Cal(0), id),
        L::SendWSnd => Op::Send(H::WSnd(0), id),
        L::CallWCal => Op::Call(H::WCal(0), id),
        L::CallAddr => Op::Call(H::Addr(0), id),
        L::Ping => Op::Ping(H::Addr(0)),
        L::ForceWSnd => Op::ForceSend(H::WSnd(0), id),
        L::SendOwn => Op::Send(H::Own(0), id),
        L::CallOwn => Op::Call(H::Own(0), id),
        L::SendAbandon => Op::SendAbandon(H::Addr(0), id),
        L::CallAbandon => Op::CallAbandon(H::Addr(0), id),
        L::CallCalAbandon => Op::CallAbandon(H::Cal(0), id),
        L::Restart => Op::Restart(H::Addr(0)),
        L::PingOwn => Op::Ping(H::Own(0)),
        L::CtxRestart => Op::Cmd(H::Addr(0), id, crate::world::Action::Restart),
        L::SelfNote => Op::Cmd(H::Addr(0), id, crate::world::Action::SelfNote { id: id + 5000, force: true }),
        L::SelfNoteWait => Op::Cmd(H::Addr(0), id, crate::world::Action::SelfNote { id: id + 5000, force: false }),
    }
}

pub fn msg_id(c: usize, i: usize) -> u32 {
    ((c + 1) * 100 + i) as u32
}

/// id of the message an op submits, if any
pub fn submitted_id(op: &Op) -> Option<u32> {
    match op {
        Op::Send(_, id) | Op::Call(_, id) | Op::ForceSend(_, id) | Op::Cmd(_, id, _) | Op::SendAbandon(_, id) | Op::CallAbandon(_, id) => Some(*id),
        _ => None,
    }
}

pub struct X {
    /// number of leading ops per client that are submissions (the rest is the epilogue)
    pub nsub: Vec<usize>,
    /// id of the message whose handler is abandoned by the configured timeout (if any)
    pub abandoned: Option<u32>,
}

pub fn oracle(s: &ProgScene<X>, t: &Trace) -> Vec<Violation> {
    let an = An::new(t.log);
    let mut out = vec![];
    let mb = s.spawn.mailbox.name();
    // (1) callbacks never overlap
    let mut open: Option<Cb> = None;
    for e in t.log {
        match e.ev {
            crate::world::Ev::Enter { a: 0, cb, .. } => {
                crate::check::oblige("handlers-sequential");
                // (a handler abandoned by the timeout never logs its exit; it is over by then)
                if let Some(o) = open.filter(|o| Some(*o) != s.extra.abandoned.map(Cb::Msg)) {
                    out.push(Violation {
                        clause: "handlers-sequential",
                        key: format!("C01/overlap/mailbox={mb}"),
                        detail: format!("{cb:?} entered while {o:?} was still running"),
                    });
                }
                open = Some(cb);
            }
            crate::world::Ev::Exit { a: 0, .. } => open = None,
            _ => {}
        }
    }
    // (2) at most once
    let mut seen: Vec<u32> = vec![];
    for e in &an.enters {
        if let Cb::Msg(id) = e.cb {
            crate::check::oblige("at-most-once");
            if seen.contains(&id) {
                out.push(Violation {
                    clause: "at-most-once",
                    key: format!("C01/handled-twice/mailbox={mb}"),
                    detail: format!("message {id} handled more than once"),
                });
            }
            seen.push(id);
        }
    }
    // (3) real-time order of submissions is respected
    struct Sub {
        id: u32,
        begin: usize,
        end: Option<usize>,
        ok: bool,
        enter: Option<usize>,
        letter: String,
    }
    let mut subs: Vec<Sub> = vec![];
    for (c, cs) in s.clients.iter().enumerate() {
        for (i, op) in cs.ops.iter().enumerate() {
            if let Some(id) = submitted_id(op) {
                if let Some(o) = an.op(c as u8, i as u16) {
                    subs.push(Sub {
                        id,
                        begin: o.begin,
                        end: o.end,
                        ok: o.ok(),
                        enter: an.enter_of_msg(0, id).first().map(|e| e.idx),
                        letter: format!("{op:?}").split('(').next().unwrap_or("").to_string() + &format!("{:?}", match op { Op::Send(h, _) | Op::Call(h, _) | Op::ForceSend(h, _) => *h, _ => H::Addr(0) }).split('(').next().unwrap_or("").to_string(),
                    });
                }
            }
        }
    }
    // letters a handler posts to its own actor are submissions too: accepted at that instant,
    // they keep their place like anybody else's - and, all of this happening before the owner's
    // stop, they are handled, once, after the handler that posted them has returned
    for (i, e) in t.log.iter().enumerate() {
        if let crate::world::Ev::Ctx { a: 0, op: crate::world::CtxOp::SelfSend(id), ok } = e.ev {
            crate::check::oblige("self-sent-letters");
            let enter = an.enter_of_msg(0, id).first().map(|e| e.idx);
            subs.push(Sub { id, begin: i, end: Some(i), ok, enter, letter: "SelfNote".into() });
            // (posted before the owner began to stop the actor: a letter that lands behind the
            // stop request is accepted and, by C04, never handled)
            let before_stop = an.ops.iter().filter(|o| matches!(s.clients.get(o.c as usize).and_then(|cs| cs.ops.get(o.i as usize)), Some(Op::Consume(_) | Op::Stop(_)))).all(|o| o.begin > i);
            if ok && enter.is_none() && before_stop && t.res.end == crate::vexec::EndReason::Quiescent {
                out.push(Violation {
                    clause: "fifo-order",
                    key: format!("C01/self-sent-letter-lost/mailbox={mb}"),
                    detail: format!("a handler posted message {id} to its own actor (accepted, well before the owner's stop) and it was never handled"),
                });
            }
            if !ok {
                out.push(Violation {
                    clause: "fifo-order",
                    key: format!("C01/self-send-refused/mailbox={mb}"),
                    detail: format!("a handler of the running actor could not post message {id} to its own actor"),
                });
            }
        }
    }
    for m1 in &subs {
        for m2 in &subs {
            if m1.id == m2.id || !m1.ok {
                continue;
            }
            let Some(e1) = m1.end else { continue };
            if e1 < m2.begin {
                if let Some(h2) = m2.enter {
                    crate::check::oblige("fifo-order");
                    match m1.enter {
                        None => out.push(Violation {
                            clause: "fifo-order",
                            key: format!("C01/handled-without-predecessor/{}-then-{}/mailbox={mb}", m1.letter, m2.letter),
                            detail: format!("message {} (submitted after {} had been accepted) was handled but {} never was", m2.id, m1.id, m1.id),
                        }),
                        Some(h1) if h1 > h2 => out.push(Violation {
                            clause: "fifo-order",
                            key: format!("C01/overtaken/{}-then-{}/mailbox={mb}", m1.letter, m2.letter),
                            detail: format!("message {} was handled before {} although the submission of {} had completed before that of {} began", m2.id, m1.id, m1.id, m2.id),
                        }),
                        _ => {}
                    }
                }
            }
        }
    }
    // (3a) a restart the actor asks for itself takes its place in the mailbox like a letter posted
    // at that instant: whatever had been accepted before the handler asked is handled before the
    // restart happens
    for (ri, e) in t.log.iter().enumerate() {
        if !matches!(e.ev, crate::world::Ev::Ctx { a: 0, op: crate::world::CtxOp::Restart, ok: true }) {
            continue;
        }
        let next_start = an.enters.iter().find(|x| x.a == 0 && x.cb == Cb::Started && x.idx > ri).map(|x| x.idx);
        let Some(ns) = next_start else { continue };
        for m1 in subs.iter().filter(|m| m.ok && m.end.is_some_and(|end| end < ri)) {
            crate::check::oblige("self-restart-in-mailbox-order");
            if m1.enter.is_none_or(|h| h > ns) && s.extra.abandoned != Some(m1.id) {
                out.push(Violation {
                    clause: "fifo-order",
                    key: format!("C01/self-restart-overtook/{}/mailbox={mb}", m1.letter),
                    detail: format!("message {} had been accepted before the handler asked for a restart, but the restart happened first", m1.id),
                });
            }
        }
    }
    // (3b) a ping is a submission like any other: when it returns Ok, its probe has been through
    // the mailbox, so everything whose submission had completed before the ping began has been
    // handled by then
    for (c, cs) in s.clients.iter().enumerate() {
        for (i, op) in cs.ops.iter().enumerate() {
            if !matches!(op, Op::Ping(_)) {
                continue;
            }
            let Some(p) = an.op(c as u8, i as u16) else { continue };
            let (true, Some(pend)) = (p.ok(), p.end) else { continue };
            for m1 in subs.iter().filter(|m| m.ok && m.end.is_some_and(|e| e < p.begin)) {
                crate::check::oblige("ping-is-ordered");
                let handled_by_then = an.exit_of_msg(0, m1.id).is_some_and(|x| x.idx < pend);
                let abandoned = s.extra.abandoned == Some(m1.id);
                if !handled_by_then && !abandoned {
                    out.push(Violation {
                        clause: "fifo-order",
                        key: format!("C01/ping-overtook/{}/mailbox={mb}", m1.letter),
                        detail: format!("{op:?} of client {c} returned Ok although message {} - accepted before the ping began - had not been handled yet", m1.id),
                    });
                }
            }
        }
    }
    // (4) state = sequential fold of the handled messages
    // (a restart under the recreate strategy starts a fresh value: the fold starts over with it)
    let mut digest = DIGEST0;
    let mut handled = 0u32;
    let mut digest_at: Vec<(u32, u64)> = vec![];
    let mut cur_inst: Option<u16> = None;
    // ... a restart somebody asked for, that is: a fresh value that turns up on its own account
    // (after an overrun, say) has lost what the handled messages had built up, and the fold goes
    // on as if nothing had happened
    let asked: usize = an.ops.iter().filter(|o| o.ok() && matches!(s.clients.get(o.c as usize).and_then(|cs| cs.ops.get(o.i as usize)), Some(Op::Restart(_)))).count()
        + t.log.iter().filter(|e| matches!(e.ev, crate::world::Ev::Ctx { a: 0, op: crate::world::CtxOp::Restart, ok: true })).count();
    let mut fresh_values = 0usize;
    for e in &an.exits {
        if e.cb == Cb::Started && cur_inst != Some(e.inst) {
            if cur_inst.is_none() || fresh_values < asked {
                digest = DIGEST0;
                handled = 0;
            }
            if cur_inst.is_some() {
                fresh_values += 1;
            }
            cur_inst = Some(e.inst);
        }
        // (stream items are folded into the state like messages)
        if let Cb::Msg(id) | Cb::Item(id) = e.cb {
            digest = fold(digest, id);
            handled += 1;
            digest_at.push((id, digest));
        }
    }
    for o in &an.ops {
        match o.res {
            Some(Res::Reply(r)) => {
                crate::check::oblige("state-is-fold");
                let want = digest_at.iter().find(|(id, _)| *id == r.id).map(|(_, d)| *d);
                let own = s.clients.get(o.c as usize).and_then(|cs| cs.ops.get(o.i as usize)).and_then(submitted_id);
                if Some(r.digest) != want || r.nth != 1 || own != Some(r.id) {
                    out.push(Violation {
                        clause: "state-is-fold",
                        key: format!("C01/reply-digest/mailbox={mb}"),
                        detail: format!("call {:?} got {:?}, expected digest {:?} of the handled prefix", own, r, want),
                    });
                }
            }
            Some(Res::Joined(j)) => {
                if j.digest != digest || j.handled != handled || !j.stopped_seen {
                    out.push(Violation {
                        clause: "state-is-fold",
                        key: format!("C01/join-state/mailbox={mb}"),
                        detail: format!("join returned {:?}, expected digest {:x} over {} handled messages", j, digest, handled),
                    });
                }
            }
            _ => {}
        }
    }
    // the scene must end with the owner's consume having returned the actor
    if !an.ops.iter().any(|o| matches!(o.res, Some(Res::Joined(_)))) {
        out.push(Violation {
            clause: "scene-completes",
            key: format!("C01/no-final-state/mailbox={mb}"),
            detail: "the final consume() did not return the actor value".into(),
        });
    }
    let _ = &s.extra.nsub;
    out
}

pub fn make_case(progs: &[Vec<L>], mailbox: Mailbox, yields: u8, bound: Option<u32>) -> Case {
    make_case_t(progs, mailbox, yields, bound, None)
}

/// a handler timeout of 2 ticks (carry on) is configured, nothing is slow, but client 0 only
/// starts after the actor has been idle for 3 ticks, and pauses 3 more ticks before its last message
pub fn make_case_gap(progs: &[Vec<L>], mailbox: Mailbox) -> Case {
    GAP.with(|g| g.set(true));
    let mut c = make_case_t(progs, mailbox, 0, None, None);
    GAP.with(|g| g.set(false));
    c.desc = c.desc.replacen("fifo", "fifo [timeout 2, idle gaps]", 1);
    c
}

thread_local! {
    static SLOW_START: std::cell::Cell<bool> = const { std::cell::Cell::new(false) };
    static GAP: std::cell::Cell<bool> = const { std::cell::Cell::new(false) };
    /// the actor runs an interval timer (period 1) registered in started()
    static TICKING: std::cell::Cell<bool> = const { std::cell::Cell::new(false) };
    /// the clients' weak sender and weak caller are the ones the actor's own context made
    /// (`Context::weak_sender` / `weak_caller`, shared from started())
    static CTX_MADE: std::cell::Cell<bool> = const { std::cell::Cell::new(false) };
}

/// the same, with every client's weak handles replaced by the ones minted by the actor's context
pub fn make_case_ctx_made(progs: &[Vec<L>], mailbox: Mailbox, yields: u8, bound: Option<u32>) -> Case {
    CTX_MADE.with(|g| g.set(true));
    let mut c = make_case_t(progs, mailbox, yields, bound, None);
    CTX_MADE.with(|g| g.set(false));
    c.desc = c.desc.replacen("fifo", "fifo [weak handles made by the context]", 1);
    c
}

/// the same, with an interval timer running in the actor (ticks are handlers like any other)
pub fn make_case_ticking(progs: &[Vec<L>], mailbox: Mailbox, yields: u8, bound: Option<u32>) -> Case {
    TICKING.with(|g| g.set(true));
    let mut c = make_case_t(progs, mailbox, yields, bound, None);
    TICKING.with(|g| g.set(false));
    c.desc = c.desc.replacen("fifo", "fifo [interval timer running]", 1);
    c
}

/// `slow`: a handler timeout of 2 ticks (carry on) is configured and the message with this
/// index of client 0 needs 5 ticks - it is abandoned, everything else must be unaffected
pub fn make_case_t(progs: &[Vec<L>], mailbox: Mailbox, yields: u8, bound: Option<u32>, slow: Option<usize>) -> Case {
    let mut clients = vec![];
    let mut nsub = vec![];
    for (c, p) in progs.iter().enumerate() {
        let mut ops: Vec<Op> = p.iter().enumerate().map(|(i, l)| to_op(*l, msg_id(c, i))).collect();
        nsub.push(ops.len());
        if CTX_MADE.with(|g| g.get()) {
            ops.insert(0, Op::AdoptCtx);
        }
        if c == 0 && GAP.with(|g| g.get()) {
            // idle for 3 ticks before the first message and before the last one
            if ops.len() > 1 {
                ops.insert(ops.len() - 1, Op::Sleep(3));
            }
            ops.insert(0, Op::Sleep(3));
        }
        let mut init = FULL.to_vec();
        if c == 0 {
            init.push(HInit::Own);
            ops.push(Op::Sleep(1));
            ops.push(Op::Consume(H::Own(0)));
        }
        clients.push(ClientSpec { init, ops });
    }
    let mut role = RoleCfg { default_work: Work { yields, ..Work::default() }, ..RoleCfg::default() };
    if SLOW_START.with(|g| g.get()) {
        // started() gives way once and then takes a tick: the clients' letters arrive while the
        // actor is still starting
        role.started_yields = 1;
        role.started_sleep = 1;
    }
    let mut spawn = SpawnCfg::plain(mailbox);
    if GAP.with(|g| g.get()) {
        spawn.timeout = Some((2, false));
    }
    if TICKING.with(|g| g.get()) {
        role.started_actions.push(crate::world::Action::Interval { timer: 1, period: 1 });
    }
    if CTX_MADE.with(|g| g.get()) {
        role.started_actions.push(crate::world::Action::ShareCtxHandles);
    }
    if let Some(k) = slow {
        role.work.push((msg_id(0, k), Work { sleep: 5, ..Work::default() }));
        spawn.timeout = Some((2, false));
        // the owner waits long enough for the abandoned handler's slot to pass
        if let Some(Op::Sleep(t)) = clients[0].ops.iter_mut().find(|o| matches!(o, Op::Sleep(_))) {
            *t = 9;
        }
    }
    let desc = format!(
        "fifo{} mailbox={} yields={} slow={:?} progs={}",
        crate::progscene::variant_tag(),
        mailbox.name(),
        yields,
        slow,
        progs.iter().map(|p| p.iter().map(|l| format!("{l:?}")).collect::<Vec<_>>().join(",")).collect::<Vec<_>>().join(" | ")
    );
    Case {
        desc,
        exec: ExecCfg::default(),
        bound,
        scene: Box::new(ProgScene { variant: crate::progscene::current_variant(), attach: crate::progscene::attach_for(mailbox), spawn, roles: vec![role], clients, extra: X { nsub, abandoned: slow.map(|k| msg_id(0, k)) }, oracle }),
    }
}

/// all sequences of length n over `alpha`
pub fn seqs(alpha: &[L], n: usize) -> Vec<Vec<L>> {
    let mut out: Vec<Vec<L>> = vec![vec![]];
    for _ in 0..n {
        out = out.into_iter().flat_map(|p| alpha.iter().map(move |l| { let mut q = p.clone(); q.push(*l); q })).collect();
    }
    out
}

fn plain_cases(tier: Tier) -> Vec<Case> {
    let mut v = vec![];
    let mailboxes = [Mailbox::U, Mailbox::B(0), Mailbox::B(1), Mailbox::B(2)];
    let own_alpha: Vec<L> = ALL.iter().copied().chain([L::SendOwn, L::CallOwn, L::PingOwn]).collect();
    for &mb in &mailboxes {
        for yields in [0u8, 1] {
            // one client: [1], [2], [3] (client 0 may also use the owning address)
            for n in 1..=3 {
                if n == 3 && yields == 1 && tier == Tier::Quick {
                    continue;
                }
                let alpha: &[L] = if n < 3 { &own_alpha } else { &ALL };
                for p in seqs(alpha, n) {
                    v.push(make_case(&[p], mb, yields, None));
                }
            }
            // two clients [1,1], [2,1]
            for a in seqs(&own_alpha, 1) {
                for b in seqs(&ALL, 1) {
                    v.push(make_case(&[a.clone(), b], mb, yields, None));
                }
            }
            if yields == 0 || tier == Tier::Thorough {
                for a in seqs(&ALL, 2) {
                    for b in seqs(&ALL, 1) {
                        v.push(make_case(&[a.clone(), b], mb, yields, None));
                    }
                }
                // three clients [1,1,1]: multisets for clients 1,2
                for a in seqs(&ALL, 1) {
                    for (j, b) in ALL.iter().enumerate() {
                        for c in &ALL[j..] {
                            v.push(make_case(&[a.clone(), vec![*b], vec![*c]], mb, yields, None));
                        }
                    }
                }
            }
        }
    }
    // a handler timeout (carry on) abandons one slow message: the others keep their order and
    // none of them is lost
    let talpha = [L::SendAddr, L::SendSnd, L::CallAddr, L::CallCal, L::ForceWSnd];
    for &mb in &mailboxes {
        for p in seqs(&talpha, 3) {
            for slow in 0..2 {
                v.push(make_case_t(&[p.clone()], mb, 0, None, Some(slow)));
            }
        }
        for a in seqs(&talpha, 2) {
            for b in seqs(&talpha, 1) {
                v.push(make_case_t(&[a.clone(), b], mb, 0, None, Some(0)));
            }
        }
    }
    // a handler timeout is configured, nothing is slow, but the actor sits idle between messages
    for &mb in &mailboxes {
        for p in seqs(&talpha, 2) {
            v.push(make_case_gap(&[p], mb));
        }
        for p in seqs(&talpha, 3) {
            v.push(make_case_gap(&[p], mb));
        }
        for a in seqs(&talpha, 2) {
            for b in seqs(&talpha, 1) {
                v.push(make_case_gap(&[a.clone(), b], mb));
            }
        }
    }
    // clients that give up: a send / call future polled once and dropped. Whatever had been
    // accepted before keeps its order, nothing is handled twice, nobody else is held up
    let giveup = [L::SendAbandon, L::CallAbandon, L::CallCalAbandon];
    let around = [L::SendAddr, L::CallAddr, L::CallCal];
    for &mb in &mailboxes {
        for yields in [0u8, 1] {
            for &g in &giveup {
                for &x in &around {
                    for &y in &around {
                        v.push(make_case(&[vec![x, g, y]], mb, yields, None));
                        if yields == 0 || tier == Tier::Thorough {
                            v.push(make_case(&[vec![x, g], vec![y]], mb, yields, None));
                            v.push(make_case(&[vec![g, y], vec![x]], mb, yields, None));
                        }
                    }
                }
                v.push(make_case(&[vec![g, g, L::CallAddr]], mb, yields, None));
            }
        }
    }
    // a weak handle is a weak handle, whoever made it: the clients' weak sender and weak caller
    // are the ones the actor's own context minted (`Context::weak_sender` / `weak_caller`, handed
    // to other tasks from started()), mixed with submissions through a plain address
    let wk = [L::SendWSnd, L::CallWCal, L::ForceWSnd];
    let wmix = [L::SendWSnd, L::CallWCal, L::ForceWSnd, L::SendAddr, L::CallAddr];
    for &mb in &mailboxes {
        for yields in [0u8, 1] {
            for p in seqs(&wmix, 2).into_iter().chain(if yields == 0 || tier == Tier::Thorough { seqs(&wmix, 3) } else { vec![] }) {
                if p.iter().any(|l| wk.contains(l)) {
                    v.push(make_case_ctx_made(&[p], mb, yields, None));
                }
            }
            if yields == 0 || tier == Tier::Thorough {
                for a in seqs(&wmix, 2) {
                    for &b in &wk {
                        v.push(make_case_ctx_made(&[a.clone(), vec![b]], mb, yields, None));
                    }
                }
            }
        }
    }
    // a restart between submissions (with and without a timer running in the actor): the mailbox
    // is kept, so whatever was accepted before and after the request is handled, in order
    for &mb in &mailboxes {
        for &x in &around {
            for &y in &around {
                for ticking in [false, true] {
                    let mk = |progs: &[Vec<L>], bound: Option<u32>| if ticking { make_case_ticking(progs, mb, 0, bound) } else { make_case(progs, mb, 0, bound) };
                    v.push(mk(&[vec![x, L::Restart, y, L::CallAddr]], None));
                    v.push(mk(&[vec![x, L::CtxRestart, y, L::CallAddr]], None));
                    v.push(mk(&[vec![L::CtxRestart, x], vec![y]], if ticking { Some(4) } else { None }));
                    v.push(mk(&[vec![x, L::Restart], vec![y]], if ticking { Some(4) } else { None }));
                    if tier == Tier::Thorough {
                        v.push(mk(&[vec![x, L::Restart, y], vec![L::SendAddr, L::Restart, L::CallCal]], Some(5)));
                    }
                }
            }
        }
    }
    // pings from several tasks at once: each one answers for its own place in the mailbox
    for &mb in &mailboxes {
        for yields in [0u8, 1] {
            for &x in &around {
                v.push(make_case(&[vec![L::Ping, L::CallAddr], vec![x, L::Ping]], mb, yields, None));
                v.push(make_case(&[vec![L::Ping], vec![L::Ping], vec![x, L::Ping]], mb, yields, Some(4)));
                v.push(make_case(&[vec![x, L::Ping], vec![x, L::Ping]], mb, yields, None));
            }
        }
    }
    // handlers that post letters to their own actor
    for &mb in &mailboxes {
        for &x in &around {
            for sn in [L::SelfNote, L::SelfNoteWait] {
                if sn == L::SelfNoteWait && mb != Mailbox::U {
                    continue;
                }
                v.push(make_case(&[vec![sn, x, L::CallAddr]], mb, 0, None));
                v.push(make_case(&[vec![x, sn, L::CallCal]], mb, 0, None));
                v.push(make_case(&[vec![sn, sn, x]], mb, 0, None));
                v.push(make_case(&[vec![sn, x], vec![L::SendSnd, L::CallAddr]], mb, 0, None));
                v.push(make_case(&[vec![x, sn], vec![sn]], mb, 1, None));
            }
        }
    }
    // four operations: one representative per (path x erasure) class
    let reps = [L::SendAddr, L::CallCal, L::SendWSnd, L::CallAddr, L::ForceWSnd];
    let mbs4: &[Mailbox] = if tier == Tier::Quick { &[Mailbox::B(0), Mailbox::B(1)] } else { &mailboxes };
    for &mb in mbs4 {
        for a in seqs(&reps, 2) {
            for b in seqs(&reps, 2) {
                v.push(make_case(&[a.clone(), b], mb, 0, None));
            }
        }
    }
    if tier == Tier::Thorough {
        // [2,2] over the full alphabet
        for &mb in &[Mailbox::U, Mailbox::B(0), Mailbox::B(1)] {
            for a in seqs(&ALL, 2) {
                for b in seqs(&ALL, 2) {
                    v.push(make_case(&[a.clone(), b], mb, 0, None));
                }
            }
        }
        let reps3 = [L::SendAddr, L::CallCal, L::CallAddr];
        for &mb in &[Mailbox::U, Mailbox::B(0), Mailbox::B(1), Mailbox::B(3)] {
            // [3,1], [2,1,1], [1,1,1,1], [3,2], [2,2,1]
            for a in seqs(&reps, 3) {
                for b in seqs(&reps, 1) {
                    v.push(make_case(&[a.clone(), b], mb, 0, None));
                }
            }
            for a in seqs(&reps3, 2) {
                for b in seqs(&reps3, 1) {
                    for c in seqs(&reps3, 1) {
                        v.push(make_case(&[a.clone(), b.clone(), c], mb, 0, None));
                    }
                }
            }
            for a in seqs(&reps3, 1) {
                for b in seqs(&reps3, 1) {
                    for c in seqs(&reps3, 1) {
                        for d in seqs(&reps3, 1) {
                            v.push(make_case(&[a.clone(), b.clone(), c.clone(), d], mb, 0, Some(6)));
                        }
                    }
                }
            }
            for a in seqs(&reps3, 3) {
                for b in seqs(&reps3, 2) {
                    v.push(make_case(&[a.clone(), b], mb, 0, None));
                }
            }
        }
    }
    v
}

/// The family on the plain event loop, plus (every third case in the quick tier, all of them in
/// the thorough tier) the same programs on the stream loop: the actor is attached to a stream
/// that stays open and never yields, so `create_loop_on_stream` serves the mailbox.
fn cases(tier: Tier) -> Vec<Case> {
    let mut v = plain_cases(tier);
    let s = crate::progscene::with_stream_variant(|| plain_cases(tier));
    // (a restart cannot be sent to a stream-attached actor)
    v.extend(s.into_iter().enumerate().filter(|(i, c)| (tier == Tier::Thorough || i % 3 == 0) && !c.desc.contains("Restart")).map(|(_, mut c)| {
        // the attached stream is never ready, so the loop's select! tie-break cannot change anything:
        // it is not explored as a choice here (C13 explores it, with streams that do yield)
        c.exec.select_choice = false;
        c
    }));
    // ... and with three items ready on that stream from the start (every eleventh case; thorough:
    // every third): mailbox and stream are ready together, the tie-break is explored, and neither
    // side may lose anything to it
    let step = if tier == Tier::Thorough { 3 } else { 11 };
    let si = crate::progscene::with_stream_variant_items(vec![71, 72, 73], || plain_cases(tier));
    v.extend(si.into_iter().enumerate().filter(|(i, c)| i % step == 5 % step && !c.desc.contains("Restart") && !c.desc.contains("slow=Some")).map(|(_, mut c)| {
        c.desc = c.desc.replacen("fifo", "fifo [3 stream items ready]", 1);
        c.bound = c.bound.or(Some(if tier == Tier::Thorough { 5 } else { 3 }));
        c
    }));
    // ... and with a started() that takes its time (every fifth case; thorough: every second):
    // what arrives while the actor is starting is handled afterwards, in the order it arrived
    {
        let step = if tier == Tier::Thorough { 2 } else { 5 };
        SLOW_START.with(|g| g.set(true));
        let ss = plain_cases(tier);
        SLOW_START.with(|g| g.set(false));
        v.extend(ss.into_iter().enumerate().filter(|(i, c)| i % step == 1 && !c.desc.contains("slow=Some")).map(|(_, mut c)| {
            c.desc = c.desc.replacen("fifo", "fifo [started() takes a tick]", 1);
            c
        }));
    }
    // ... and with a stream that yields one item and then *ends* (every seventh case; thorough:
    // every second): the actor ends with the stream, possibly with letters still in its mailbox -
    // whatever it does handle, it handles in order, once
    let step = if tier == Tier::Thorough { 2 } else { 7 };
    let sc = crate::progscene::with_stream_variant_closing(vec![71], || plain_cases(tier));
    v.extend(sc.into_iter().enumerate().filter(|(i, c)| i % step == 3 % step && !c.desc.contains("Restart") && !c.desc.contains("slow=Some") && !c.desc.contains("SelfNote")).map(|(_, mut c)| {
        c.desc = c.desc.replacen("fifo", "fifo [stream of one item, then it ends]", 1);
        c.bound = c.bound.or(Some(if tier == Tier::Thorough { 5 } else { 3 }));
        c
    }));
    // ... and (every fourth case; thorough: every second) once more under a configuration that must
    // not matter: a handler timeout nothing comes near, and the recreate strategy
    let nv = crate::progscene::Variant { generous_timeout: true, recreate: true, builder_order: 0, owner_dropped: false };
    let n = crate::progscene::with_variant(nv, || plain_cases(tier));
    let step = if tier == Tier::Thorough { 2 } else { 4 };
    // (every case with an overrunning handler is kept: an abandoned invocation is no restart, under
    // the strategy that would replace the value least of all)
    v.extend(n.into_iter().enumerate().filter(|(i, c)| i % step == 1 || c.desc.contains("slow=Some")).map(|(_, mut c)| {
        // no handler takes anywhere near 50 ticks, so the timeout's select! never has both arms ready
        c.exec.select_choice = false;
        c
    }));
    v
}

pub fn property() -> Property {
    Property {
        id: "C01",
        cases,
        clauses: &["handlers-sequential", "at-most-once", "fifo-order", "state-is-fold", "self-sent-letters"],
        full_rerun_check: true,
        assumptions: &["the final state is obtained by the owner: after a virtual tick (everything submitted has been accepted) it calls consume(), i.e. stop + join"],
    }
}
