//! C10: timers respect their period/delay, die with the actor and never prolong it.

use crate::{
    check::{Case, Property, Tier, Trace, Violation},
    ops::{Op, H},
    progscene::{Attach, ClientSpec, HInit, ProgScene},
    scenes::{Mailbox, SpawnCfg, Strat},
    trace::An,
    vexec::{ExecCfg, TaskKind},
    world::{Action, Cb, RoleCfg, Work},
};

#[derive(Clone, Copy, Debug, PartialEq, Eq)]
pub enum Term {
    Stop,
    Drop,
    Panic,
    TimeoutFail,
    Never,
}

pub struct X {
    /// (timer action, registered in a handler at t=1 instead of in started at t=0)
    timers: Vec<(Action, bool)>,
    racy: bool,
    instant: bool,
    term: Term,
    term_time: u32,
    /// the actor is restarted once before the terminating action: the timers registered in
    /// started() exist twice over its life, so the per-timer timing clauses are left to C07 and
    /// only "dies with the actor / never prolongs it / nothing leaked" are checked
    restarted: bool,
}

fn timer_id(a: &Action) -> u8 {
    match a {
        Action::Interval { timer, .. } | Action::IntervalWith { timer, .. } | Action::DelayedSend { timer, .. } | Action::DelayedExec { timer, .. } | Action::LongExec { timer, .. } => *timer,
        _ => 0,
    }
}

fn oracle(s: &ProgScene<X>, t: &Trace) -> Vec<Violation> {
    let an = An::new(t.log);
    let mut out = vec![];
    let x = &s.extra;
    let mode = if x.racy { "racy" } else { "exact" };
    let term = an.task_end(0);
    let term_time = term.map(|(i, _)| t.log[i].time);
    // durations in virtual ticks (the scene may use a tick shorter than the clock's millisecond)
    let tick_us = s.roles[0].tick_us;
    let eff = |d: u32| crate::world::eff_ticks(d, tick_us);
    for (a, in_handler) in &x.timers {
        let id = timer_id(a);
        let t0: u64 = if *in_handler { 1 } else { 0 };
        let (kind, p, repeating, exec) = match a {
            Action::Interval { period, .. } => ("interval", eff(*period), true, false),
            Action::IntervalWith { period, .. } => ("interval_with", eff(*period), true, false),
            Action::DelayedSend { delay, .. } => ("delayed_send", eff(*delay), false, false),
            Action::DelayedExec { delay, .. } => ("delayed_exec", eff(*delay), false, true),
            // (a future that takes `work` ticks of its own: its effect is due after delay + work,
            // and it is the actor's timer from the moment it is registered until then)
            Action::LongExec { delay, work, .. } => ("delayed_exec of a long future", eff(*delay).saturating_add(eff(*work)), false, true),
            _ => continue,
        };
        let fires: Vec<(usize, u64)> = an
            .enters
            .iter()
            .filter(|e| match e.cb {
                Cb::Tick { timer, .. } => !exec && timer == id,
                Cb::Exec { timer, .. } => exec && timer == id,
                _ => false,
            })
            .map(|e| (e.idx, e.time))
            .collect();
        // always: the k-th delivery is not before t0 + k*P; one-shots at most once
        for (k, (_, time)) in fires.iter().enumerate().filter(|_| !x.restarted) {
            crate::check::oblige("not-before-period");
            let earliest = t0.saturating_add((k as u64 + 1).saturating_mul(p));
            if *time < earliest {
                out.push(Violation {
                    clause: "not-before-period",
                    key: format!("C10/{kind}/too-early/{mode}"),
                    detail: format!("{kind}({p}) registered at t={t0}: delivery #{} handled at t={time}, not before t={earliest} allowed", k + 1),
                });
            }
        }
        if !repeating && fires.len() > 1 && !x.restarted {
            out.push(Violation {
                clause: "one-shot-once",
                key: format!("C10/{kind}/fired-twice/{mode}"),
                detail: format!("{kind}({p}) fired {} times", fires.len()),
            });
        }
        // a delayed_exec armed for longer than anybody will wait stays armed: its future lives
        // until the actor goes (stopped(), or the end of a failed actor's task), not a moment less
        if exec && p >= u64::MAX / 4 && !x.restarted {
            crate::check::oblige("armed-until-the-end");
            let dropped = t.log.iter().position(|e| matches!(e.ev, crate::world::Ev::Ctx { a: 0, op: crate::world::CtxOp::ExecDropped(tm), .. } if tm == id));
            let going = an.enters.iter().find(|e| e.a == 0 && e.cb == Cb::Stopped).map(|e| e.idx).into_iter().chain(term.map(|(i, _)| i)).min();
            if let Some(d) = dropped {
                if going.is_none_or(|g| d < g) {
                    out.push(Violation {
                        clause: "armed-until-the-end",
                        key: format!("C10/{kind}/future-dropped-while-armed/{mode}"),
                        detail: format!("the future given to {kind} (due in ages) was dropped at t={} while its actor was alive and well", t.log[d].time),
                    });
                }
            }
        }
        // never after termination
        if let Some((tidx, _)) = term {
            crate::check::oblige("no-fire-after-termination");
            if let Some((idx, time)) = fires.iter().find(|(idx, _)| *idx > tidx) {
                out.push(Violation {
                    clause: "no-fire-after-termination",
                    key: format!("C10/{kind}/fired-after-termination/{mode}"),
                    detail: format!("{kind}({p}) fired at log position {idx} (t={time}) after the actor had terminated at position {tidx}"),
                });
            }
        }
        // exact: on an otherwise idle actor with instant handlers, exactly at t0 + k*P
        if !x.racy && x.instant && !x.restarted {
            // the actor is "otherwise idle" only until the terminating action is issued: ticks
            // strictly before that instant must be handled at their exact time; ticks at or
            // after it (same-instant ties, ticks queued behind a slow failing message) may or
            // may not be handled before the end
            let action_time: u64 = x.term_time as u64 + if x.timers.iter().any(|(_, h)| *h) { 2 } else { 0 };
            let limit = term_time.unwrap_or(s_horizon(s)).min(s_horizon(s));
            let mut expected: Vec<u64> = vec![];
            let mut optional: Vec<u64> = vec![];
            let mut k: u64 = 1;
            loop {
                let at = t0.saturating_add(k.saturating_mul(p));
                if at > limit {
                    break;
                }
                if x.term != Term::Never && at >= action_time {
                    optional.push(at);
                } else {
                    expected.push(at);
                }
                if !repeating {
                    break;
                }
                k += 1;
            }
            if !expected.is_empty() {
                crate::check::oblige("exact-period");
            }
            let got: Vec<u64> = fires.iter().map(|(_, t)| *t).collect();
            let missing: Vec<&u64> = expected.iter().filter(|e| !got.contains(e)).collect();
            let extra: Vec<&u64> = got.iter().filter(|g| !expected.contains(g) && !optional.contains(g)).collect();
            if !missing.is_empty() || !extra.is_empty() {
                out.push(Violation {
                    clause: "exact-period",
                    key: format!("C10/{kind}/wrong-times/exact"),
                    detail: format!("{kind}({p}) registered at t={t0}, actor ended at {term_time:?}: handled at {got:?}, expected {expected:?} (optional {optional:?})"),
                });
            }
        }
    }
    // restart cases: the timers the *current* incarnation registered in started() do fire - at
    // every due time strictly before that incarnation ends and before the terminating action
    if x.restarted && !x.racy && x.instant {
        let last_op = s.clients[0].ops.len().saturating_sub(1) as u16;
        let limit = an.op(0, last_op).map(|o| t.log[o.begin].time).unwrap_or(0);
        for st in an.exits.iter().filter(|e| e.a == 0 && e.cb == Cb::Started) {
            let r = st.inc;
            let end = an.enters.iter().find(|e| e.a == 0 && e.cb == Cb::Stopped && e.inc == r).map(|e| e.time).unwrap_or(u64::MAX).min(term_time.unwrap_or(u64::MAX)).min(limit);
            for (a, in_handler) in &x.timers {
                if *in_handler {
                    continue;
                }
                let id = timer_id(a);
                let (times, exec): (Vec<u64>, bool) = match *a {
                    Action::Interval { period, .. } | Action::IntervalWith { period, .. } if period > 0 => ((1..).map(|k| st.time.saturating_add(eff(period).saturating_mul(k))).take_while(|x| *x < end).collect(), false),
                    Action::DelayedSend { delay, .. } => (Some(st.time.saturating_add(eff(delay))).into_iter().filter(|x| *x < end).collect(), false),
                    Action::DelayedExec { delay, .. } => (Some(st.time.saturating_add(eff(delay))).into_iter().filter(|x| *x < end).collect(), true),
                    _ => continue,
                };
                for at in times {
                    crate::check::oblige("fires-after-restart");
                    let fired = an.enters.iter().any(|e| e.a == 0 && e.time == at && if exec { e.cb == Cb::Exec { timer: id, reg_inc: r } } else { e.cb == Cb::Tick { timer: id, reg_inc: r } });
                    if !fired {
                        out.push(Violation {
                            clause: "fires-after-restart",
                            key: format!("C10/timer-of-current-incarnation-silent/{mode}"),
                            detail: format!("timer {id} registered by incarnation {r} in started() at t={} did not fire at t={at} (that incarnation ran until t={end})", st.time),
                        });
                    }
                }
            }
        }
    }
    // timers never keep the actor alive / die with it
    // (only once the terminating action has really been issued: with timer expiry racing the
    // runnable client, the clock can reach the horizon before the client gets there)
    let action_issued = s.clients[0]
        .ops
        .len()
        .checked_sub(1)
        .and_then(|i| an.op(0, i as u16))
        .and_then(|o| o.end)
        // (in the racy runs virtual time may also pass while the actor is runnable, so there only
        // a quiescent end shows that everything issued has been worked off)
        .is_some_and(|e| t.res.end == crate::vexec::EndReason::Quiescent || (!x.racy && t.log[e].time + 5 <= s_horizon(s)));
    if x.term != Term::Never && action_issued {
        match term {
            None => out.push(Violation {
                clause: "timers-do-not-prolong",
                key: format!("C10/actor-alive-after-{:?}/{mode}", x.term),
                detail: "the actor did not terminate although it was stopped / dropped / failed".into(),
            }),
            Some(_) => {
                crate::check::oblige("no-timer-task-leaked");
                let live: Vec<_> = t.res.live.iter().filter(|(_, k)| matches!(k, TaskKind::Spawned(_))).collect();
                if !live.is_empty() {
                    out.push(Violation {
                        clause: "no-timer-task-leaked",
                        key: format!("C10/timer-task-leaked/{mode}"),
                        detail: format!("tasks still alive at the end although the actor terminated: {live:?}"),
                    });
                }
            }
        }
    }
    out
}

fn s_horizon(s: &ProgScene<X>) -> u64 {
    // (restart cases: the client's program is longer by at most 3 ticks)
    if s.extra.term == Term::Never { HORIZON } else if s.extra.instant { HORIZON.max(s.extra.term_time as u64 + 8) + if s.extra.restarted { 3 } else { 0 } } else { SLOW_HORIZON }
}

const HORIZON: u64 = 9;
/// slow tick handlers let ticks pile up in front of the stop request; give the queue time to drain
const SLOW_HORIZON: u64 = 60;

fn make_case(timers: &[(Action, bool)], term: Term, term_time: u32, mailbox: Mailbox, work: Work, racy: bool, early: u32) -> Case {
    let mut role = RoleCfg { tick_work: work, tick_us: TICK_US.with(|t| t.get()), ..RoleCfg::default() };
    let mut ops = vec![];
    let mut any_handler = false;
    for (a, in_handler) in timers {
        if *in_handler {
            any_handler = true;
        } else {
            role.started_actions.push(*a);
        }
    }
    if any_handler {
        ops.push(Op::Sleep(1));
        for (i, (a, in_handler)) in timers.iter().enumerate() {
            if *in_handler {
                ops.push(Op::Cmd(H::Addr(0), 50 + i as u32, *a));
            }
        }
        ops.push(Op::Sleep(1));
    }
    if MANY.with(|m| m.get()) {
        // a handler arms a few dozen short one-shots while the timers above are still pending
        ops.insert(0, Op::Cmd(H::Addr(0), 60, Action::ManyOneShots { n: 40 }));
    }
    let mut spawn = SpawnCfg { mailbox, strat: Strat::Default, timeout: None };
    let abandoned_registrar = ABANDONED_REGISTRAR.with(|a| a.get()) && any_handler;
    if abandoned_registrar {
        // the invocation that registers the timer goes on for 5 ticks afterwards and is abandoned
        // by a carry-on limit of 2: what it had done by then stands
        spawn.timeout = Some((2, false));
        for (i, (_, in_handler)) in timers.iter().enumerate() {
            if *in_handler {
                role.work.push((50 + i as u32, Work { sleep: 5, act_first: true, ..Work::default() }));
            }
        }
    }
    let restart = RESTART_FIRST.with(|r| r.get());
    if let Some((at, recreate)) = restart {
        if recreate {
            spawn.strat = Strat::Recreate;
        }
        ops.push(Op::Sleep(at));
        ops.push(Op::Restart(H::Addr(0)));
    }
    ops.push(Op::Sleep(term_time));
    match term {
        Term::Stop => ops.push(Op::Stop(H::Addr(0))),
        Term::Drop => ops.push(Op::Drop(H::Addr(0))),
        Term::Panic => {
            role.work.push((77, Work { panic: true, ..Work::default() }));
            ops.push(Op::Send(H::Addr(0), 77));
        }
        Term::TimeoutFail => {
            spawn.timeout = Some((3, true));
            role.work.push((77, Work { sleep: 6, ..Work::default() }));
            ops.push(Op::Send(H::Addr(0), 77));
        }
        Term::Never => ops.push(Op::Sleep(HORIZON as u32 + 5)),
    }
    // another strong kind as the only holder: the Addr is converted and dropped first, every
    // later operation goes through the remaining kind (stop through a weak address)
    let holder = HOLDER.with(|h| h.get());
    if holder != 0 {
        let keep = if holder == 1 { H::Cal(0) } else { H::Snd(0) };
        let mut pre = vec![if holder == 1 { Op::ToCaller(H::Addr(0)) } else { Op::ToSender(H::Addr(0)) }, Op::Downgrade(H::Addr(0)), Op::Drop(H::Addr(0))];
        for op in ops.iter_mut() {
            *op = match *op {
                Op::Stop(_) => Op::Stop(H::WAddr(0)),
                Op::Drop(_) => Op::Drop(keep),
                Op::Send(_, id) if holder == 1 => Op::CallAbandon(keep, id),
                Op::Send(_, id) => Op::Send(keep, id),
                Op::Cmd(_, id, a) if holder == 2 => Op::Cmd(H::Addr(0), id, a),
                o => o,
            };
        }
        pre.extend(ops);
        ops = pre;
    }
    let instant = work == Work::default();
    let desc = format!(
        "timers{}{}{} {:?} term={:?}@{} mailbox={} work={}s racy={}",
        if abandoned_registrar { " [the registering invocation is abandoned at t=3]" } else { "" },
        match holder {
            1 => " [held by a Caller only]",
            2 => " [held by a Sender only]",
            _ => "",
        },
        match restart {
            Some((at, rec)) => format!(" [restarted at t={at}{}]", if rec { ", recreate" } else { "" }),
            None => String::new(),
        },
        timers, term, term_time, mailbox.name(), work.sleep, racy
    );
    Case {
        desc,
        exec: ExecCfg { horizon: if term == Term::Never { HORIZON } else if instant { HORIZON.max(term_time as u64 + 8) + if restart.is_some() { 3 } else { 0 } } else { SLOW_HORIZON }, max_early_fires: if racy { early } else { 0 },
            // the timeout's select! tie-break is C11's subject; here no handler duration equals the timeout
            select_choice: false,
            ..ExecCfg::default()
        },
        bound: None,
        scene: Box::new(ProgScene { variant: crate::progscene::current_variant(),
            spawn,
            attach: crate::progscene::attach_for(mailbox),
            roles: vec![role],
            clients: vec![ClientSpec { init: vec![HInit::Addr], ops }],
            extra: X { timers: timers.to_vec(), racy, instant, term, term_time, restarted: restart.is_some() },
            oracle,
        }),
    }
}

thread_local! {
    /// the client's only strong handle is a Caller (1) or a Sender (2) instead of an Addr (0):
    /// timers run on the actor's own weak handle, whatever kind of strong handle keeps it alive
    static HOLDER: std::cell::Cell<u8> = const { std::cell::Cell::new(0) };
}

fn with_holder<T>(kind: u8, f: impl FnOnce() -> T) -> T {
    HOLDER.with(|h| h.set(kind));
    let v = f();
    HOLDER.with(|h| h.set(0));
    v
}

thread_local! {
    /// Some((time, recreate)): the client restarts the actor once, at that time, before the rest
    static RESTART_FIRST: std::cell::Cell<Option<(u32, bool)>> = const { std::cell::Cell::new(None) };
}

fn with_restart_first<T>(at: u32, recreate: bool, f: impl FnOnce() -> T) -> T {
    RESTART_FIRST.with(|r| r.set(Some((at, recreate))));
    let v = f();
    RESTART_FIRST.with(|r| r.set(None));
    v
}

thread_local! {
    /// forty more one-shots are armed by a handler at t=0
    static MANY: std::cell::Cell<bool> = const { std::cell::Cell::new(false) };
    /// the handler that registers the timers overruns a carry-on limit afterwards
    static ABANDONED_REGISTRAR: std::cell::Cell<bool> = const { std::cell::Cell::new(false) };
    /// length of a scene tick in microseconds for the cases being generated
    static TICK_US: std::cell::Cell<u32> = const { std::cell::Cell::new(1000) };
}

fn timer_of(kind: u8, id: u8, p: u32) -> Action {
    match kind {
        0 => Action::Interval { timer: id, period: p },
        1 => Action::IntervalWith { timer: id, period: p },
        2 => Action::DelayedSend { timer: id, delay: p },
        3 => Action::DelayedExec { timer: id, delay: p },
        4 => Action::LongExec { timer: id, delay: 0, work: p },
        _ => Action::LongExec { timer: id, delay: 1, work: p },
    }
}

fn plain_cases(tier: Tier) -> Vec<Case> {
    let mut v = vec![];
    let periods: &[u32] = if tier == Tier::Quick { &[1, 2, 3] } else { &[1, 2, 3, 5] };
    let mbs = [Mailbox::U, Mailbox::B(0), Mailbox::B(1)];
    let works = [Work::default(), Work { sleep: 2, ..Work::default() }];
    let terms = [Term::Stop, Term::Drop, Term::Panic, Term::TimeoutFail, Term::Never];
    let early: u32 = if tier == Tier::Quick { 1 } else { 2 };
    let times: Vec<u32> = if tier == Tier::Quick { vec![0, 1, 2, 3, 4, 6] } else { (0..=8).collect() };
    // no timers at all: the actor still terminates
    for &term in &terms[..4] {
        v.push(make_case(&[], term, 1, Mailbox::U, Work::default(), false, 0));
    }
    // one timer
    for kind in 0..4u8 {
        for &p in periods {
            for in_handler in [false, true] {
                for &mb in &mbs {
                    for &work in &works {
                        for &term in &terms {
                            for &tt in &times {
                                if term == Term::Never && tt != 0 {
                                    continue;
                                }
                                for racy in [false, true] {
                                    if racy && tier == Tier::Quick && (mb == Mailbox::B(1) || in_handler || !matches!(tt, 0 | 1 | 3)) {
                                        continue;
                                    }
                                    v.push(make_case(&[(timer_of(kind, 1, p), in_handler)], term, tt, mb, work, racy, early));
                                }
                            }
                        }
                    }
                }
            }
        }
    }
    // a delayed_exec whose future takes a while itself (delay 0 or 1, then 2 or 3 ticks of its own):
    // it goes with the actor whether it is still waiting for its delay or already under way
    for kind in [4u8, 5] {
        for p in [2u32, 3] {
            for in_handler in [false, true] {
                for &mb in &[Mailbox::U, Mailbox::B(0)] {
                    for &term in &terms {
                        for tt in [0u32, 1, 2, 3, 5] {
                            if term == Term::Never && tt != 0 {
                                continue;
                            }
                            v.push(make_case(&[(timer_of(kind, 1, p), in_handler)], term, tt, mb, Work::default(), false, early));
                        }
                    }
                }
            }
        }
    }
    // many timers on one actor (forty one-shots armed by a handler next to a long one armed in
    // started()): every one of them goes with the actor
    MANY.with(|m| m.set(true));
    for kind in [0u8, 3] {
        for &mb in &[Mailbox::U, Mailbox::B(1)] {
            for (term, tt) in [(Term::Stop, 3u32), (Term::Drop, 3), (Term::Panic, 3)] {
                let mut c = make_case(&[(timer_of(kind, 1, 6), false)], term, tt, mb, Work::default(), false, 0);
                c.desc = c.desc.replacen("timers", "timers [forty one-shots armed by a handler]", 1);
                c.bound = Some(1);
                v.push(c);
            }
        }
    }
    MANY.with(|m| m.set(false));
    // a timer registered by an invocation that is abandoned later on (carry-on limit): it has
    // been registered, it fires like any other (period / delay 3: first due at t=4, the actor
    // has been idle again since t=3)
    ABANDONED_REGISTRAR.with(|a| a.set(true));
    for kind in 0..4u8 {
        for &mb in &[Mailbox::U, Mailbox::B(0)] {
            for (term, tt) in [(Term::Never, 0u32), (Term::Stop, 7), (Term::Drop, 7)] {
                v.push(make_case(&[(timer_of(kind, 1, 3), true)], term, tt, mb, Work::default(), false, 0));
            }
        }
    }
    ABANDONED_REGISTRAR.with(|a| a.set(false));
    // durations below the clock's resolution (a tick of 0.5 ms: 1 tick = 0.5 ms, 3 ticks = 1.5 ms)
    // and durations no run will see the end of (2^62 s, Duration::MAX): a short wait is not no
    // wait, a long one is not a short one
    for kind in 0..4u8 {
        for in_handler in [false, true] {
            for &mb in &[Mailbox::U, Mailbox::B(0)] {
                for &term in &[Term::Stop, Term::Drop, Term::Never] {
                    let tt = if term == Term::Never { 0 } else { 4 };
                    TICK_US.with(|t| t.set(500));
                    for p in [1u32, 3] {
                        let mut c = make_case(&[(timer_of(kind, 1, p), in_handler)], term, tt, mb, Work::default(), false, 0);
                        c.desc = c.desc.replacen("timers", "timers [tick = 0.5 ms]", 1);
                        // (the real tokio clock of the cross-check is coarser than that)
                        c.exec.real_crosscheck = false;
                        v.push(c);
                    }
                    TICK_US.with(|t| t.set(1000));
                    for p in [crate::world::AGES, crate::world::FOREVER] {
                        let mut c = make_case(&[(timer_of(kind, 1, p), in_handler)], term, tt, mb, Work::default(), false, 0);
                        c.exec.real_crosscheck = false;
                        v.push(c);
                    }
                }
            }
        }
    }
    // one-shots with a zero delay: due at once, and still timers (they die with the actor)
    for kind in 2..4u8 {
        for in_handler in [false, true] {
            for &mb in &mbs {
                for &term in &terms {
                    for &tt in &[0u32, 1, 2] {
                        if term == Term::Never && tt != 0 {
                            continue;
                        }
                        for racy in [false, true] {
                            v.push(make_case(&[(timer_of(kind, 1, 0), in_handler)], term, tt, mb, Work::default(), racy, early));
                        }
                    }
                }
            }
        }
    }
    // two timers of mixed kinds
    let p2: &[u32] = if tier == Tier::Quick { &[1, 2] } else { &[1, 2, 3] };
    for k1 in 0..4u8 {
        for k2 in k1..4u8 {
            for &pa in p2 {
                for &pb in p2 {
                    for &mb in &[Mailbox::U, Mailbox::B(0)] {
                        for &term in &[Term::Stop, Term::Drop, Term::Panic] {
                            for &tt in &[1u32, 3, 4] {
                                for racy in [false, true] {
                                    if racy && tier == Tier::Quick && tt != 3 {
                                        continue;
                                    }
                                    let mut c = make_case(&[(timer_of(k1, 1, pa), false), (timer_of(k2, 2, pb), false)], term, tt, mb, Work::default(), racy, early);
                                    if tier == Tier::Quick && mb != Mailbox::U {
                                        c.bound = Some(3);
                                    }
                                    v.push(c);
                                }
                            }
                        }
                    }
                }
            }
        }
    }
    // two one-shots registered before a third timer that is still pending when the actor ends
    for k1 in 2..4u8 {
        for k2 in 2..4u8 {
            for (k3, p3) in [(0u8, 3u32), (1, 3), (2, 6), (3, 6)] {
                for &term in &[Term::Stop, Term::Drop, Term::Panic] {
                    for &tt in &[3u32, 4] {
                        for &mb in &[Mailbox::U, Mailbox::B(1)] {
                            v.push(make_case(&[(timer_of(k1, 1, 1), false), (timer_of(k2, 2, 2), false), (timer_of(k3, 3, p3), false)], term, tt, mb, Work::default(), false, 0));
                        }
                    }
                }
            }
        }
    }
    if tier == Tier::Thorough {
        // three and four timers
        for k1 in 0..4u8 {
            for k2 in 0..4u8 {
                for k3 in 0..4u8 {
                    for &term in &[Term::Stop, Term::Drop, Term::Panic] {
                        for &tt in &[2u32, 5] {
                            for racy in [false, true] {
                                v.push(make_case(&[(timer_of(k1, 1, 1), false), (timer_of(k2, 2, 2), false), (timer_of(k3, 3, 3), true)], term, tt, Mailbox::U, Work::default(), racy, early));
                                v.push(make_case(
                                    &[(timer_of(k1, 1, 2), false), (timer_of(k2, 2, 3), false), (timer_of(k3, 3, 1), false), (timer_of(0, 4, 5), true)],
                                    term,
                                    tt,
                                    Mailbox::B(1),
                                    Work::default(),
                                    racy,
                                    early,
                                ));
                            }
                        }
                    }
                }
            }
        }
    }
    v
}

/// The family on the plain loop plus every fourth case (thorough: every second) on the stream
/// loop (attached to a stream that never yields). The stream loop has no handler timeouts, so
/// the timeout-failure terminations stay out of the copy.
fn cases(tier: Tier) -> Vec<Case> {
    let mut v = plain_cases(tier);
    let s = crate::progscene::with_stream_variant(|| plain_cases(tier));
    let step = if tier == Tier::Thorough { 2 } else { 4 };
    v.extend(s.into_iter().enumerate().filter(|(i, c)| i % step == 2 % step && !c.desc.contains("TimeoutFail") && !c.desc.contains("is abandoned at t=3")).map(|(_, mut c)| {
        c.desc = format!("[stream loop] {}", c.desc);
        c.exec.select_choice = false;
        c
    }));
    // ... the actor held by a Caller only / by a Sender only (every fifth case; thorough: every
    // second; timers registered in started(), instant handlers, no time races)
    for kind in [1u8, 2] {
        let step = if tier == Tier::Thorough { 2 } else { 5 };
        let extra = with_holder(kind, || plain_cases(tier));
        v.extend(extra.into_iter().enumerate().filter(|(i, c)| i % step == kind as usize % step && c.desc.contains("work=0s racy=false") && !c.desc.contains(", true)") && c.desc.matches("timer:").count() <= 1).map(|(_, c)| c));
    }
    // ... a restart before the end (every seventh case; thorough: every second; both restartable
    // strategies; restart at t=1 or t=3): timers registered by the first incarnation must be gone
    // for good - nothing fires after the termination, no timer task is left over
    for (k, (at, recreate)) in [(1u32, false), (3, true), (3, false), (1, true)].into_iter().enumerate() {
        let step = if tier == Tier::Thorough { 2 } else { 4 };
        let extra = with_restart_first(at, recreate, || plain_cases(tier));
        v.extend(extra.into_iter().enumerate().filter(|(i, c)| i % step == k % step && !c.desc.contains("term=Never") && c.desc.contains("work=0s racy=false") && c.desc.matches("timer:").count() == 1).map(|(_, c)| c));
    }
    // ... and every fifth case (thorough: every second) with a handler timeout nobody comes near
    // and a bounded mailbox that never fills: tick handlers run under the same limit as any other
    let step = if tier == Tier::Thorough { 2 } else { 5 };
    let amb = crate::scenes::Ambient { generous_timeout: true, roomy: true, ..Default::default() };
    v.extend(crate::check::with_ambient(plain_cases(tier).into_iter().enumerate().filter(|(i, c)| i % step == 3 % step && !c.desc.contains("TimeoutFail") && !c.desc.contains("is abandoned at t=3")).map(|(_, c)| c).collect(), amb));
    v
}

pub fn property() -> Property {
    Property {
        id: "C10",
        cases,
        clauses: &["not-before-period", "no-fire-after-termination", "exact-period", "no-timer-task-leaked", "armed-until-the-end"],
        full_rerun_check: true,
        assumptions: &[
            "exact clauses use discrete-event time (the clock advances only when nothing is runnable) and instant handlers; the racy runs let up to two deadlines fire although tasks are runnable and check the one-sided clauses only",
            "a deadline that coincides with the instant of the terminating action may or may not be delivered",
        ],
    }
}
