//! C02: calls return their own handler's result, and every operation resolves.

use crate::{
    check::{Case, Property, Tier, Trace, Violation},
    ops::{Op, H},
    progscene::{ClientSpec, HInit, ProgScene, FULL},
    props::c01::{msg_id, submitted_id, to_op, L},
    scenes::{Mailbox, SpawnCfg, Strat},
    trace::An,
    vexec::ExecCfg,
    world::{Action, Cb, Res, RoleCfg, StartBeh, Work},
};

#[derive(Clone, Copy, Debug, PartialEq, Eq)]
pub enum Cause {
    StopClient,
    LastDrop,
    StartErr,
    StartPanic,
    /// the handler of this message id panics
    HandlerPanic(u32),
    StoppedPanic,
    /// the handler of this message id outlasts the timeout (fail_on_timeout)
    TimeoutFail(u32),
    /// cancellation of the actor task before its j-th poll
    Cancel(u32),
}

#[derive(Clone, Copy, Debug, PartialEq, Eq)]
pub enum Resolver {
    None,
    Halt,
    Await,
    Join,
    JoinTwice,
    /// a join is in flight (polled once, then left alone) while a second one is awaited; the
    /// first is awaited afterwards
    JoinInFlight,
    /// await the address, then - the actor is gone - make new handles from a remaining address
    /// (sender, caller, weak round trip) and submit through them: errors, like everything else
    AwaitThenConvert,
    /// a join future is taken, then the owner is dropped like everybody else's handles: the
    /// future resolves when the actor - nothing keeps it alive - has ended
    JoinKeptOwnerDropped,
    /// two join futures pending at the same time in two different tasks (the second one is
    /// handed to a helper client): both resolve once the actor has terminated
    JoinTwoTasks,
}

pub struct X {
    pub cause: Cause,
    /// the handler of this message is abandoned by a carry-on limit
    pub abandoned: Option<u32>,
}

fn opname(op: &Op) -> String {
    let s = format!("{op:?}");
    let head = s.split('(').next().unwrap_or("").to_string();
    let h = match op {
        Op::Send(h, _) | Op::Call(h, _) | Op::ForceSend(h, _) | Op::Ping(h) | Op::Stop(h) | Op::Halt(h) | Op::Await(h) | Op::Join(h) => format!("{h:?}").split('(').next().unwrap_or("").to_string(),
        _ => String::new(),
    };
    format!("{head}{h}")
}

pub fn oracle(s: &ProgScene<X>, t: &Trace) -> Vec<Violation> {
    let an = An::new(t.log);
    let mut out = vec![];
    let cause = s.extra.cause;
    let ck = format!("{cause:?}").split('(').next().unwrap_or("").to_string();
    let term = an.task_end(0);
    let stopped_exit = an.exits.iter().any(|e| e.a == 0 && e.cb == Cb::Stopped);
    // graceful = ended, not cancelled, stopped() completed AND nothing failed on the way (a
    // failed actor must not pass for a gracefully stopped one just because stopped() also ran)
    let graceful = matches!(term, Some((_, false))) && stopped_exit && !an.role_failed_except(0, &s.roles[0].started, s.extra.abandoned);
    let op_at = |c: u8, i: u16| s.clients.get(c as usize).and_then(|cs| cs.ops.get(i as usize));
    let mut joins_some = 0;
    for o in &an.ops {
        let Some(op) = op_at(o.c, o.i) else { continue };
        let name = opname(op);
        // (1) own response, handled exactly once
        if let (Op::Call(..), Some(Res::Reply(r))) = (op, o.res) {
            crate::check::oblige("own-response");
            let own = submitted_id(op);
            let enters = an.enter_of_msg(0, r.id).len();
            let exited = an.exit_of_msg(0, r.id).is_some();
            if own != Some(r.id) || r.nth != 1 || enters != 1 || !exited {
                out.push(Violation {
                    clause: "own-response",
                    key: format!("C02/foreign-or-duplicate-response/{name}"),
                    detail: format!("call of message {own:?} returned {r:?}; handler entries for that id: {enters}, completed: {exited}"),
                });
            }
        }
        if let (Op::Call(..), Some(Res::Reply(_))) = (op, o.res) {
            let own = submitted_id(op).unwrap_or(0);
            if an.exit_of_msg(0, own).is_none() {
                out.push(Violation {
                    clause: "ok-implies-handled",
                    key: format!("C02/ok-without-handler/{name}"),
                    detail: format!("call {own} returned Ok but its handler never completed"),
                });
            }
        }
        // (1b) a ping that says Ok has been through the mailbox of a running actor: the actor has
        // started, and whatever had been accepted before the ping began has been handled to its
        // end by then (a ping that was still queued when the actor died says so)
        if let (Op::Ping(_), true, Some(pend)) = (op, o.ok(), o.end) {
            crate::check::oblige("ping-ok-means-picked-up");
            let started_ok = an.exits.iter().any(|e| e.a == 0 && e.cb == Cb::Started && e.idx < pend) && !matches!(cause, Cause::StartErr | Cause::StartPanic);
            if !started_ok {
                out.push(Violation {
                    clause: "ping-ok-means-picked-up",
                    key: format!("C02/ping-ok-from-an-actor-that-never-ran/{name}/cause={ck}"),
                    detail: format!("ping (client {} op {}) returned Ok although the actor never got through started()", o.c, o.i),
                });
            }
            for m in &an.ops {
                let Some(mop) = op_at(m.c, m.i) else { continue };
                let (Op::Send(..) | Op::Call(..) | Op::ForceSend(..), Some(id)) = (mop, submitted_id(mop)) else { continue };
                // accepted before the ping began: a send that returned Ok, or a call that was
                // begun by the same client earlier (it had returned, one way or the other)
                let accepted_before = m.end.is_some_and(|e| e < o.begin) && (m.ok() || matches!(mop, Op::Call(..)) && an.enter_of_msg(0, id).first().is_some());
                if !accepted_before {
                    continue;
                }
                if !an.exit_of_msg(0, id).is_some_and(|x| x.idx < pend) && m.ok() && s.extra.abandoned != Some(id) {
                    out.push(Violation {
                        clause: "ping-ok-means-picked-up",
                        key: format!("C02/ping-ok-behind-an-unfinished-message/{name}/cause={ck}"),
                        detail: format!("ping (client {} op {}) returned Ok although message {id}, accepted before the ping began, was never handled to its end", o.c, o.i),
                    });
                }
            }
        }
        // (2') ... with a result, not with a panic thrown into the caller
        if o.res == Some(Res::Panicked) {
            out.push(Violation {
                clause: "resolves-after-termination",
                key: format!("C02/panicked/{name}/cause={ck}"),
                detail: format!("client {} op {} {op:?} panicked instead of completing with a result ({cause:?})", o.c, o.i),
            });
        }
        // (2) everything resolves once the actor has terminated
        if term.is_some() {
            crate::check::oblige("resolves-after-termination");
        }
        if o.end.is_none() {
            if term.is_some() {
                out.push(Violation {
                    clause: "resolves-after-termination",
                    key: format!("C02/hang/{name}/cause={ck}"),
                    detail: format!("client {} op {} {op:?} never resolved although the actor terminated ({cause:?})", o.c, o.i),
                });
            }
            continue;
        }
        // (3) verdicts relative to the termination step
        let Some((tidx, _)) = term else { continue };
        let begun_after = o.begin > tidx;
        match op {
            Op::Call(..) | Op::Ping(_) | Op::Send(..) | Op::ForceSend(..) | Op::Cmd(..) | Op::Stop(_) | Op::Restart(_) if begun_after => {
                crate::check::oblige("error-after-termination");
                if o.ok() {
                    out.push(Violation {
                        clause: "error-after-termination",
                        key: format!("C02/ok-after-termination/{name}/cause={ck}"),
                        detail: format!("client {} op {} {op:?} was begun after the actor had terminated and returned {:?}", o.c, o.i, o.res),
                    });
                }
            }
            Op::Await(_) | Op::AwaitRef(_) => {
                crate::check::oblige("await-yields-termination-result");
                if o.ok() != graceful {
                    out.push(Violation {
                        clause: "await-yields-termination-result",
                        key: format!("C02/await-verdict/{name}/cause={ck}"),
                        detail: format!("await returned {:?}, graceful={graceful}", o.res),
                    });
                }
            }
            Op::Halt(_) => {
                // halt = stop + await: an error is fine whenever the stop was rejected or the actor failed
                if o.ok() && !graceful {
                    out.push(Violation {
                        clause: "await-yields-termination-result",
                        key: format!("C02/halt-verdict/{name}/cause={ck}"),
                        detail: format!("halt returned Ok although the actor failed ({cause:?})"),
                    });
                }
            }
            Op::Join(_) | Op::JoinAwait(_) => {
                crate::check::oblige(if graceful { "join-some-on-graceful" } else { "join-none-on-failure" });
                if matches!(o.res, Some(Res::Joined(_))) {
                    joins_some += 1;
                    if !graceful {
                        out.push(Violation {
                            clause: "join-none-on-failure",
                            key: format!("C02/join-some-on-failure/cause={ck}"),
                            detail: format!("join returned the actor although it failed ({cause:?})"),
                        });
                    }
                } else if graceful && joins_some == 0 && !an.ops.iter().any(|p| p.begin < o.begin && matches!(op_at(p.c, p.i), Some(Op::Join(_) | Op::JoinAwait(_) | Op::JoinStart(_)))) {
                    out.push(Violation {
                        clause: "join-some-on-graceful",
                        key: format!("C02/join-none-on-graceful/cause={ck}"),
                        detail: format!("first join returned {:?} although the actor terminated gracefully", o.res),
                    });
                }
            }
            _ => {}
        }
    }
    if term.is_none() {
        if cause == Cause::LastDrop {
            // every client has let go of its handles (that is the cause): whoever still waits -
            // a join future taken before the owner was dropped - waits for an end that must come
            let waiting = an.ops.iter().filter(|o| o.end.is_none()).count();
            out.push(Violation {
                clause: "resolves-after-termination",
                key: "C02/hang/last-drop-did-not-end-the-actor".into(),
                detail: format!("every strong handle was dropped but the actor never ended; {waiting} operation(s) are still waiting for it"),
            });
        } else if an.ops.iter().any(|o| o.ok() && matches!(op_at(o.c, o.i), Some(Op::Stop(_)))) || an.ops.iter().any(|o| o.end.is_none() && matches!(op_at(o.c, o.i), Some(Op::Halt(_) | Op::Consume(_)))) {
            // a stop request was accepted (or a halt / consume is waiting for its own): the actor
            // never acted on it, whoever waits for its end waits for ever
            let waiting = an.ops.iter().filter(|o| o.end.is_none()).count();
            out.push(Violation {
                clause: "resolves-after-termination",
                key: format!("C02/hang/accepted-stop-never-took-effect/cause={ck}"),
                detail: format!("a stop request was accepted but the actor never terminated; {waiting} operation(s) are still waiting"),
            });
        } else {
            out.push(Violation {
                clause: "scene-terminates",
                key: format!("C02/actor-alive-at-quiescence/cause={ck}"),
                detail: "harness scene error: the actor never terminated".into(),
            });
        }
    }
    out
}

pub fn make_case(progs: &[Vec<L>], cause: Cause, resolver: Resolver, mailbox: Mailbox, bound: Option<u32>) -> Case {
    let mut clients = vec![];
    let mut own_free = true;
    for (c, p) in progs.iter().enumerate() {
        let ops: Vec<Op> = p.iter().enumerate().map(|(i, l)| to_op(*l, msg_id(c, i))).collect();
        let mut init = FULL.to_vec();
        if p.iter().any(|l| matches!(l, L::CallOwn | L::SendOwn)) {
            init.push(HInit::Own);
            own_free = false;
        }
        clients.push(ClientSpec { init, ops });
    }
    if cause == Cause::StopClient {
        // (with two joining tasks the stop comes once both joins are pending)
        let ops = if resolver == Resolver::JoinTwoTasks { vec![Op::Sleep(3), Op::Stop(H::Addr(0))] } else { vec![Op::Stop(H::Addr(0))] };
        clients.push(ClientSpec { init: vec![HInit::Addr], ops });
    }
    match resolver {
        Resolver::None => {}
        Resolver::Halt => clients.push(ClientSpec { init: vec![HInit::Addr], ops: vec![Op::Halt(H::Addr(0))] }),
        Resolver::Await => clients.push(ClientSpec { init: vec![HInit::Addr], ops: vec![Op::Await(H::Addr(0))] }),
        Resolver::AwaitThenConvert => clients.push(ClientSpec {
            init: vec![HInit::Addr, HInit::Addr],
            ops: vec![
                Op::Await(H::Addr(0)),
                Op::ToSender(H::Addr(1)),
                Op::Send(H::Snd(0), 990),
                Op::ToCaller(H::Addr(1)),
                Op::Call(H::Cal(0), 991),
                Op::Downgrade(H::Addr(1)),
                Op::Upgrade(H::WAddr(0)),
                Op::Call(H::Addr(2), 992),
                Op::Ping(H::Addr(1)),
            ],
        }),
        Resolver::JoinKeptOwnerDropped if own_free => clients.push(ClientSpec { init: vec![HInit::Own], ops: vec![Op::JoinStart(H::Own(0)), Op::Drop(H::Own(0)), Op::JoinAwait(0)] }),
        Resolver::JoinTwoTasks if own_free => {
            clients.push(ClientSpec { init: vec![HInit::Own], ops: vec![Op::JoinStart(H::Own(0)), Op::JoinStart(H::Own(0)), Op::JoinGive(1), Op::JoinAwait(0)] });
            clients.push(ClientSpec { init: vec![], ops: vec![Op::Sleep(1), Op::JoinTake, Op::JoinAwait(0)] });
        }
        Resolver::Join if own_free => clients.push(ClientSpec { init: vec![HInit::Own], ops: vec![Op::Join(H::Own(0))] }),
        Resolver::JoinTwice if own_free => clients.push(ClientSpec { init: vec![HInit::Own], ops: vec![Op::Join(H::Own(0)), Op::Join(H::Own(0))] }),
        Resolver::JoinInFlight if own_free => {
            clients.push(ClientSpec { init: vec![HInit::Own], ops: vec![Op::JoinStart(H::Own(0)), Op::JoinPollOnce(0), Op::Join(H::Own(0)), Op::JoinAwait(0)] })
        }
        _ => {}
    }
    let mut role = RoleCfg::default();
    let mut spawn = SpawnCfg { mailbox, strat: Strat::Default, timeout: None };
    let mut exec = ExecCfg::default();
    if resolver == Resolver::JoinKeptOwnerDropped {
        // ... also when the actor runs timers of its own (which never keep it alive)
        role.started_actions = vec![Action::Interval { timer: 1, period: 2 }, Action::IntervalWith { timer: 2, period: 3 }];
        exec.horizon = 12;
    }
    // a join future that is polled exactly once sees whether the handle's lock suspends
    exec.lock_yield_is_choice = resolver == Resolver::JoinInFlight;
    match cause {
        Cause::StartErr => role.started.push(StartBeh::Err),
        Cause::StartPanic => role.started.push(StartBeh::Panic),
        Cause::HandlerPanic(id) => role.work.push((id, Work { panic: true, ..Work::default() })),
        Cause::StoppedPanic => role.stopped_panic = true,
        Cause::TimeoutFail(id) => {
            spawn.timeout = Some((2, true));
            role.work.push((id, Work { sleep: 5, ..Work::default() }));
        }
        Cause::Cancel(j) => exec.cancel = Some((0, j)),
        Cause::StopClient | Cause::LastDrop => {}
    }
    let overrun = OVERRUN.with(|o| o.get()) && cause == Cause::StopClient;
    if overrun {
        // the first message of client 0 outlasts a carry-on limit (2 ticks, needs 5): it is
        // abandoned, its caller is told so - and everything else goes on, the stop included
        spawn.timeout = Some((2, false));
        role.work.push((msg_id(0, 0), Work { sleep: 5, ..Work::default() }));
        exec.select_choice = false;
    }
    let desc = format!(
        "resolve{}{} mailbox={} cause={:?} resolver={:?} progs={}",
        crate::progscene::variant_tag(),
        if overrun { " [the first handler overruns a carry-on limit]" } else { "" },
        mailbox.name(),
        cause,
        resolver,
        progs.iter().map(|p| p.iter().map(|l| format!("{l:?}")).collect::<Vec<_>>().join(",")).collect::<Vec<_>>().join(" | ")
    );
    Case {
        desc,
        exec,
        bound,
        scene: Box::new(ProgScene { variant: crate::progscene::current_variant(), attach: crate::progscene::attach_for(mailbox), spawn, roles: vec![role], clients, extra: X { cause, abandoned: if overrun { Some(msg_id(0, 0)) } else { None } }, oracle }),
    }
}

/// resolvers that make sense for a cause (the scene must end in termination)
fn resolvers_for(cause: Cause) -> Vec<Resolver> {
    match cause {
        // awaiting or joining keeps a strong handle: nobody would ever stop the actor
        Cause::LastDrop => vec![Resolver::None, Resolver::JoinKeptOwnerDropped],
        Cause::StoppedPanic => vec![Resolver::Halt],
        Cause::HandlerPanic(_) | Cause::TimeoutFail(_) | Cause::StartErr | Cause::StartPanic | Cause::StopClient => {
            vec![Resolver::None, Resolver::Halt, Resolver::Await, Resolver::Join, Resolver::JoinTwice, Resolver::JoinInFlight, Resolver::AwaitThenConvert, Resolver::JoinTwoTasks]
        }
        // a cancellation point that is never reached must not leave the scene hanging: halt
        Cause::Cancel(_) => vec![Resolver::Halt],
    }
}

/// "Every call resolves, provided user handlers themselves terminate" - also when the handler
/// needs the service registry (it looks another service up) while somebody else is busy with the
/// registry entry of the very actor that is running it (`which`: 0 register a second instance,
/// 1 replace with one, 2 setup, 3 already_running, 4 unregister).
struct RegistryBusy {
    which: u8,
}

impl crate::check::Scene for RegistryBusy {
    fn roles(&self) -> Vec<RoleCfg> {
        // role 0: the registered service; its handler of message 700 looks service Probe<1> up
        let r0 = RoleCfg { msg_actions: vec![(700, Action::LookupService { k: 1 })], ..RoleCfg::default() };
        vec![r0, RoleCfg::default(), RoleCfg::default()]
    }
    fn pre(&self) {
        use futures::FutureExt as _;
        let _ = hannibal::Addr::<crate::world::Probe<0>>::unregister().now_or_never();
        let _ = hannibal::Addr::<crate::world::Probe<1>>::unregister().now_or_never();
    }
    fn setup(&self, exec: &crate::vexec::Exec) {
        use crate::world::{log, Ask, Ev, Probe};
        use hannibal::prelude::*;
        crate::world::W.with(|w| {
            let mut w = w.borrow_mut();
            w.default_role[0] = 2;
            w.default_role[1] = 1;
        });
        let which = self.which;
        let (tx, rx) = futures::channel::oneshot::channel::<hannibal::Addr<Probe<0>>>();
        // the caller: its call makes the service look another service up from its handler
        exec.spawn_client(1, async move {
            let Ok(a2) = rx.await else { return };
            log(Ev::Begin { c: 1, i: 0 });
            let r = a2.call(Ask(700)).await;
            log(Ev::End { c: 1, i: 0, r: if r.is_ok() { Res::Ok } else { Res::Err(crate::world::ErrKind::Send) } });
        });
        exec.spawn_client(0, async move {
            log(Ev::Begin { c: 0, i: 0 });
            let a = Probe::<0>::new(0).spawn();
            let registered = a.clone().register().await.is_ok();
            log(Ev::End { c: 0, i: 0, r: Res::Bool(registered) });
            let _ = tx.send(a.clone());
            log(Ev::Begin { c: 0, i: 1 });
            let r = match which {
                0 => Res::Bool(Probe::<0>::new(2).spawn().register().await.is_ok()),
                1 => Res::Bool(Probe::<0>::new(2).spawn().replace().await.is_some()),
                2 => Res::Bool(Probe::<0>::setup().await.is_ok()),
                3 => Res::OptBool(Probe::<0>::already_running().await),
                _ => Res::Bool(hannibal::Addr::<Probe<0>>::unregister().await.is_some()),
            };
            log(Ev::End { c: 0, i: 1, r });
            log(Ev::Begin { c: 0, i: 2 });
            crate::world::sleep(3).await;
            drop(a);
            log(Ev::End { c: 0, i: 2, r: Res::Ok });
        });
    }
    fn check(&self, t: &Trace) -> Vec<Violation> {
        let an = An::new(t.log);
        let mut out = vec![];
        crate::check::oblige("resolves-after-termination");
        for o in &an.ops {
            if o.end.is_none() {
                out.push(Violation {
                    clause: "resolves-after-termination",
                    key: format!("C02/hang/registry-busy/op={}.{}/which={}", o.c, o.i, self.which),
                    detail: format!("client {} op {} never resolved: the service's handler looks another service up while another task works on the service's own registry entry", o.c, o.i),
                });
            }
        }
        out
    }
}

/// ... and when the handler publishes on a broker topic its own actor is subscribed to, twice in
/// a row, while the actor's mailbox is a small bounded one.
struct RepublishingSubscriber {
    n: usize,
}

impl crate::check::Scene for RepublishingSubscriber {
    fn roles(&self) -> Vec<RoleCfg> {
        vec![RoleCfg { started_actions: vec![Action::Subscribe { topic: 1 }], ..RoleCfg::default() }]
    }
    fn pre(&self) {
        use futures::FutureExt as _;
        let _ = hannibal::Addr::<hannibal::Broker<crate::world::T1>>::unregister().now_or_never();
    }
    fn setup(&self, exec: &crate::vexec::Exec) {
        use crate::ops::{run_client, Handles};
        let a = crate::scenes::spawn_probe(0, SpawnCfg::plain(Mailbox::B(self.n))).detach();
        exec.spawn_client(0, run_client(0, Handles::with_addr(a), vec![Op::Sleep(1), Op::Cmd(H::Addr(0), 710, Action::PublishTwice { id: 41 }), Op::Call(H::Addr(0), 711), Op::Ping(H::Addr(0)), Op::Sleep(2)]));
    }
    fn check(&self, t: &Trace) -> Vec<Violation> {
        let an = An::new(t.log);
        let mut out = vec![];
        crate::check::oblige("resolves-after-termination");
        for o in &an.ops {
            if o.end.is_none() {
                out.push(Violation {
                    clause: "resolves-after-termination",
                    key: format!("C02/hang/republishing-subscriber/op={}/mailbox=B{}", o.i, self.n),
                    detail: format!("client op {} never resolved: the actor's handler publishes twice on a topic the actor itself is subscribed to (its handlers all terminate)", o.i),
                });
            }
        }
        out
    }
}

thread_local! {
    static OVERRUN: std::cell::Cell<bool> = const { std::cell::Cell::new(false) };
}

fn plain_cases(tier: Tier) -> Vec<Case> {
    let mut v = vec![];
    // a handler that overruns a carry-on limit while calls, pings and the stop queue up behind it
    OVERRUN.with(|o| o.set(true));
    for &mb in &[Mailbox::U, Mailbox::B(1)] {
        for resolver in [Resolver::Halt, Resolver::Await, Resolver::Join] {
            for p in [vec![vec![L::CallAddr], vec![L::CallCal]], vec![vec![L::SendAddr, L::Ping], vec![L::CallAddr]], vec![vec![L::CallAddr, L::SendAddr], vec![L::Ping]]] {
                v.push(make_case(&p, Cause::StopClient, resolver, mb, None));
            }
        }
    }
    OVERRUN.with(|o| o.set(false));
    let first0 = [L::CallAddr, L::CallCal, L::CallWCal, L::CallOwn];
    let first1 = [L::CallAddr, L::CallCal, L::CallWCal];
    let second = [None, Some(L::Ping), Some(L::SendAddr), Some(L::CallAddr), Some(L::CallAbandon), Some(L::SendAbandon)];
    let mbs: &[Mailbox] = if tier == Tier::Quick { &[Mailbox::U, Mailbox::B(0)] } else { &[Mailbox::U, Mailbox::B(0), Mailbox::B(1)] };
    let mut causes = vec![
        Cause::StopClient,
        Cause::LastDrop,
        Cause::StartErr,
        Cause::StartPanic,
        Cause::HandlerPanic(msg_id(0, 0)),
        Cause::HandlerPanic(msg_id(1, 0)),
        Cause::StoppedPanic,
        Cause::TimeoutFail(msg_id(0, 0)),
    ];
    let maxj = if tier == Tier::Quick { 4 } else { 8 };
    for j in 1..=maxj {
        causes.push(Cause::Cancel(j));
    }
    for &mb in mbs {
        for &cause in &causes {
            for resolver in resolvers_for(cause) {
                for a in first0 {
                    if a == L::CallOwn && matches!(resolver, Resolver::Join | Resolver::JoinTwice | Resolver::JoinInFlight | Resolver::JoinKeptOwnerDropped | Resolver::JoinTwoTasks) {
                        continue;
                    }
                    for s2 in second {
                        for b in first1 {
                            let mut p0 = vec![a];
                            p0.extend(s2);
                            // quick: keep second ops to a representative subset
                            if tier == Tier::Quick && s2.is_some() && !(a == L::CallAddr || b == L::CallCal) {
                                continue;
                            }
                            if tier == Tier::Quick && matches!(s2, Some(L::CallAbandon | L::SendAbandon)) && !(a == L::CallAddr && b == L::CallCal) {
                                continue;
                            }
                            if resolver == Resolver::JoinTwoTasks && !(a == L::CallAddr && s2.is_none() && b == L::CallCal && cause == Cause::StopClient) {
                                continue;
                            }
                            // (timers multiply the schedules: one program shape is enough for this resolver)
                            if resolver == Resolver::JoinKeptOwnerDropped && !(a == L::CallAddr && b == L::CallCal && (s2.is_none() || s2 == Some(L::SendAddr))) {
                                continue;
                            }
                            v.push(make_case(&[p0, vec![b]], cause, resolver, mb, None));
                        }
                    }
                }
            }
        }
    }
    // a ping as a client's *first* operation: it may be in the mailbox, unanswered, at the moment
    // the actor dies of any cause - and must then say so
    for &mb in mbs {
        for &cause in &causes {
            let resolver = resolvers_for(cause)[0];
            v.push(make_case(&[vec![L::Ping, L::CallAddr], vec![L::CallCal]], cause, resolver, mb, None));
            v.push(make_case(&[vec![L::CallAddr], vec![L::Ping]], cause, resolver, mb, None));
            v.push(make_case(&[vec![L::SendAddr, L::Ping], vec![L::Ping]], cause, resolver, mb, None));
        }
    }
    if tier == Tier::Thorough {
        // three calling clients; pairs of causes (a client stop racing with a failure)
        for &mb in mbs {
            for &cause in &causes {
                for a in first0 {
                    for b in first1 {
                        for c in first1 {
                            v.push(make_case(&[vec![a], vec![b], vec![c, L::Ping]], cause, Resolver::Halt, mb, None));
                            let r2 = if resolvers_for(cause).contains(&Resolver::JoinTwice) && a != L::CallOwn { Resolver::JoinTwice } else { Resolver::Halt };
                            v.push(make_case(&[vec![a, L::CallAddr], vec![b], vec![c]], cause, r2, mb, Some(5)));
                        }
                    }
                }
            }
        }
    }
    v
}

/// The family on the plain event loop, plus (every third case in the quick tier, all of them in
/// the thorough tier) the same programs on the stream loop: the actor is attached to a stream
/// that stays open and never yields, so `create_loop_on_stream` serves the mailbox.
fn cases(tier: Tier) -> Vec<Case> {
    let mut v = plain_cases(tier);
    let s = crate::progscene::with_stream_variant(|| plain_cases(tier));
    v.extend(s.into_iter().enumerate().filter(|(i, c)| (tier == Tier::Thorough || i % 3 == 0) && !c.desc.contains("TimeoutFail")).map(|(_, mut c)| {
        // the attached stream is never ready, so the loop's select! tie-break cannot change anything:
        // it is not explored as a choice here (C13 explores it, with streams that do yield)
        c.exec.select_choice = false;
        c
    }));
    // ... and attached to a stream that yields one item and then *ends* (every seventh case;
    // thorough: every third): one more way for the actor to end, at any moment of the program
    let step = if tier == Tier::Thorough { 3 } else { 7 };
    let sc = crate::progscene::with_stream_variant_closing(vec![71], || plain_cases(tier));
    v.extend(sc.into_iter().enumerate().filter(|(i, c)| i % step == 4 % step && !c.desc.contains("TimeoutFail") && !c.desc.contains("Restart")).map(|(_, mut c)| {
        c.desc = c.desc.replacen("[stream loop]", "[stream loop, the stream ends after one item]", 1);
        c.bound = c.bound.or(Some(if tier == Tier::Thorough { 5 } else { 3 }));
        c
    }));
    // ... and (every fourth case; thorough: every second) once more under a configuration that must
    // not matter: a handler timeout nothing comes near, and the recreate strategy
    let nv = crate::progscene::Variant { generous_timeout: true, recreate: true, builder_order: 0, owner_dropped: false };
    let n = crate::progscene::with_variant(nv, || plain_cases(tier));
    let step = if tier == Tier::Thorough { 2 } else { 4 };
    v.extend(n.into_iter().enumerate().filter(|(i, _)| i % step == 1).map(|(_, mut c)| {
        // no handler takes anywhere near 50 ticks, so the timeout's select! never has both arms ready
        c.exec.select_choice = false;
        c
    }));
    #[cfg(any(feature = "rt-tokio", feature = "rt-async"))]
    for n in [0usize, 1, 2] {
        v.push(Case {
            desc: format!("resolve [the handler publishes twice on its own actor's topic] mailbox=B{n}"),
            exec: ExecCfg { horizon: 20, ..ExecCfg::default() },
            bound: None,
            scene: Box::new(RepublishingSubscriber { n }),
        });
    }
    // handlers that need the registry while the registry is busy with their own actor
    for which in 0..5u8 {
        v.push(Case {
            desc: format!("resolve [the handler looks a service up while the registry is busy with its actor] which={which}"),
            exec: ExecCfg { horizon: 20, yield_holding_lock: true, ..ExecCfg::default() },
            bound: None,
            scene: Box::new(RegistryBusy { which }),
        });
    }
    // "every call and ping resolves" behind an attached stream that is ready every time the loop
    // looks: the mailbox must get its turn (set-valued, shared with C13)
    v.extend(crate::props::c13::fair_cases("C02"));
    v
}

pub fn property() -> Property {
    Property {
        id: "C02",
        cases,
        clauses: &["own-response", "resolves-after-termination", "error-after-termination", "await-yields-termination-result", "join-none-on-failure", "join-some-on-graceful", "mailbox-gets-its-turn", "ping-ok-means-picked-up"],
        full_rerun_check: true,
        assumptions: &[
            "termination = the step in which the actor task ends; graceful = it ended without cancellation after stopped() finished",
            "a fire-and-forget send that was parked for mailbox space when the actor terminated may resolve either way (Ok means 'accepted into the mailbox' throughout the API); it only has to resolve",
        ],
    }
}
