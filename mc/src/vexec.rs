//! Controlled single-threaded executor with a virtual clock, plus the stateless DFS explorer.
//!
//! Every point at which the environment has a choice goes through `choose(n)`:
//!   1. which runnable task is polled next (alternatives ordered by (step at which the task
//!      became runnable, task id));
//!   2. (optional) firing the next timer deadline although tasks are runnable;
//!   3. every `gen_index(n)` of a `futures::select!` shuffle.
//! An execution is determined by its sequence of choices; the explorer re-executes the scene
//! from scratch for every sequence (optionally with at most `d` non-default choices).

use std::{
    cell::RefCell,
    future::Future,
    panic::AssertUnwindSafe,
    pin::Pin,
    rc::Rc,
    sync::{Arc, Mutex},
    task::{Context, Poll, Wake, Waker},
    time::Duration,
};

pub type LocalFuture = Pin<Box<dyn Future<Output = ()> + 'static>>;

#[derive(Clone, Debug)]
pub struct ExecCfg {
    /// virtual-time horizon in ticks (1 tick = 1 ms); the clock never advances beyond it
    pub horizon: u64,
    /// how many times "fire the next deadline although tasks are runnable" may be chosen
    pub max_early_fires: u32,
    /// lock acquisitions are scheduling points
    pub yield_at_lock: bool,
    /// ... and whether a given acquisition suspends is itself a choice (an uncontended lock is
    /// acquired without suspending on a real runtime; needed when a program polls a future
    /// exactly once)
    pub lock_yield_is_choice: bool,
    /// a task that has just acquired a write lock (the service registry) is suspended once
    /// while holding it: other tasks run during that time, as they do on a multi-threaded
    /// runtime - `try_read` fails, other acquisitions wait
    pub yield_holding_lock: bool,
    /// the `select!` shuffle is a choice (otherwise: source order)
    pub select_choice: bool,
    /// hard cap on choice points per execution (machinery error when hit)
    pub max_choice_points: usize,
    /// hard cap on steps per execution (machinery error when hit)
    pub max_steps: u64,
    /// cancellation fault: drop spawned task #`0` instead of performing its `1`-th poll (1-based)
    pub cancel: Option<(usize, u32)>,
    /// an execution in which a task spins on zero-length timers is an outcome the scene's oracle
    /// judges (EndReason::Spin); otherwise it is a machinery error
    pub spin_is_outcome: bool,
    /// the case's outcome on the real tokio runtime (paused clock) is compared with the explored
    /// set; off for programs whose timers are shorter than that clock's granularity
    pub real_crosscheck: bool,
    /// tokio only: the first poll of a task's join handle may answer Pending and wake itself (the
    /// polling task has used up its cooperative budget) - a choice; the other runtimes' handles
    /// have no such budget and never ask
    pub coop_is_choice: bool,
}

impl Default for ExecCfg {
    fn default() -> Self {
        ExecCfg {
            horizon: u64::MAX,
            max_early_fires: 0,
            yield_at_lock: true,
            lock_yield_is_choice: false,
            yield_holding_lock: false,
            select_choice: true,
            max_choice_points: 5_000,
            max_steps: 100_000,
            cancel: None,
            spin_is_outcome: false,
            real_crosscheck: true,
            coop_is_choice: false,
        }
    }
}

#[derive(Clone, Copy, Debug, PartialEq, Eq)]
pub enum TaskKind {
    Client(u8),
    /// n-th task spawned through the hannibal backend (0-based)
    Spawned(u32),
}

#[derive(Clone, Copy, Debug, PartialEq, Eq)]
pub enum TaskEnd {
    Done,
    Cancelled,
}

#[derive(Clone, Copy, Debug, PartialEq, Eq)]
pub enum ExecEvent {
    Spawn { task: u32, kind: TaskKind, parent: Option<u32> },
    End { task: u32, how: TaskEnd },
    Time { now: u64 },
}

#[derive(Clone, Copy, Debug, PartialEq, Eq)]
pub enum EndReason {
    Quiescent,
    Horizon,
    /// a task went through thousands of zero-length timers within one poll: it never yields, the
    /// thread that runs it is lost (the execution is cut there)
    Spin,
}

struct Task {
    fut: Option<LocalFuture>,
    kind: TaskKind,
    /// step at which the task became runnable; u64::MAX = not runnable
    runnable_since: u64,
    polls: u32,
    cancel_requested: bool,
    finished: bool,
    waker: Waker,
}

struct Timer {
    deadline: u64,
    fired: bool,
    alive: bool,
    waker: Option<Waker>,
}

#[derive(Clone, Copy, Debug, PartialEq, Eq)]
pub struct ChoiceRec {
    pub chosen: u32,
    pub n: u32,
    /// rolling hash of everything observable up to this choice point
    pub hash: u64,
}

struct State {
    cfg: ExecCfg,
    tasks: Vec<Task>,
    timers: Vec<Timer>,
    now: u64,
    step: u64,
    current: Option<u32>,
    spawned: u32,
    early_fires: u32,
    // choices
    prefix: Vec<ChoiceRec>,
    record: Vec<ChoiceRec>,
    steps_at_prefix_end: u64,
    hash: u64,
    divergence: Option<String>,
    capped: Option<&'static str>,
    /// zero-length timers created during the poll that is running
    zero_sleeps_this_poll: u32,
    spinning: bool,
    on_event: Option<Rc<dyn Fn(ExecEvent, u64, u64)>>,
}

struct WakeQ(Mutex<Vec<u32>>);

struct TaskWaker {
    id: u32,
    q: Arc<WakeQ>,
}

impl Wake for TaskWaker {
    fn wake(self: Arc<Self>) {
        self.wake_by_ref()
    }
    fn wake_by_ref(self: &Arc<Self>) {
        self.q.0.lock().unwrap().push(self.id);
    }
}

pub struct Inner {
    st: RefCell<State>,
    wakeq: Arc<WakeQ>,
}

thread_local! {
    static CUR: RefCell<Option<Rc<Inner>>> = const { RefCell::new(None) };
}

fn cur() -> Option<Rc<Inner>> {
    CUR.with(|c| c.borrow().clone())
}

#[inline]
fn mix(h: u64, v: u64) -> u64 {
    // fxhash-like
    (h.rotate_left(5) ^ v).wrapping_mul(0x517c_c1b7_2722_0a95)
}

/// Folds an observation into the rolling hash used by the replay discipline.
pub fn observe(v: u64) {
    if let Some(i) = cur() {
        let mut st = i.st.borrow_mut();
        st.hash = mix(st.hash, v);
    }
}

/// Current (step, virtual time, running task) for stamping log entries; (0,0,MAX) outside an
/// execution; task is u32::MAX outside any task (scene setup).
pub fn stamp() -> (u64, u64, u32) {
    CUR.with(|c| match c.borrow().as_ref() {
        Some(i) => {
            let st = i.st.borrow();
            (st.step, st.now, st.current.unwrap_or(u32::MAX))
        }
        None => (0, 0, u32::MAX),
    })
}

impl Inner {
    fn choose(&self, n: usize) -> usize {
        if n <= 1 {
            return 0;
        }
        let mut st = self.st.borrow_mut();
        let pos = st.record.len();
        let hash = st.hash;
        let chosen = if pos < st.prefix.len() {
            let p = st.prefix[pos];
            if p.n as usize != n || (p.hash != 0 && p.hash != hash) {
                if st.divergence.is_none() {
                    st.divergence = Some(format!(
                        "choice point {pos}: recorded n={} hash={:x}, now n={} hash={:x}",
                        p.n, p.hash, n, hash
                    ));
                }
                (p.chosen as usize).min(n - 1)
            } else {
                p.chosen as usize
            }
        } else {
            0
        };
        if pos + 1 == st.prefix.len() {
            st.steps_at_prefix_end = st.step;
        }
        if st.record.len() >= st.cfg.max_choice_points {
            st.capped = Some("max_choice_points");
        }
        st.record.push(ChoiceRec {
            chosen: chosen as u32,
            n: n as u32,
            hash,
        });
        st.hash = mix(hash, 0xC0DE ^ ((chosen as u64) << 8) ^ n as u64);
        chosen
    }

    fn emit(&self, ev: ExecEvent) {
        let (cb, step, now) = {
            let st = self.st.borrow();
            (st.on_event.clone(), st.step, st.now)
        };
        if let Some(cb) = cb {
            cb(ev, step, now);
        }
    }

    fn spawn(&self, fut: LocalFuture, client: Option<u8>) -> u32 {
        let (id, kind, parent) = {
            let mut st = self.st.borrow_mut();
            let id = st.tasks.len() as u32;
            let kind = match client {
                Some(c) => TaskKind::Client(c),
                None => {
                    st.spawned += 1;
                    TaskKind::Spawned(st.spawned - 1)
                }
            };
            let waker = Waker::from(Arc::new(TaskWaker {
                id,
                q: self.wakeq.clone(),
            }));
            let step = st.step;
            st.tasks.push(Task {
                fut: Some(fut),
                kind,
                runnable_since: step,
                polls: 0,
                cancel_requested: false,
                finished: false,
                waker,
            });
            st.hash = mix(st.hash, 0x5A00 ^ id as u64);
            (id, kind, st.current)
        };
        self.emit(ExecEvent::Spawn {
            task: id,
            kind,
            parent,
        });
        id
    }

    fn drain_wakes(&self) {
        let woken: Vec<u32> = std::mem::take(&mut *self.wakeq.0.lock().unwrap());
        if woken.is_empty() {
            return;
        }
        let mut st = self.st.borrow_mut();
        let step = st.step;
        for id in woken {
            if let Some(t) = st.tasks.get_mut(id as usize) {
                if !t.finished && t.runnable_since == u64::MAX {
                    t.runnable_since = step;
                }
            }
        }
    }

    /// One scheduling decision; returns false when the execution is over.
    fn step(&self) -> Option<EndReason> {
        self.drain_wakes();
        // runnable tasks in canonical order
        let (runnable, next_deadline, early_ok) = {
            let st = self.st.borrow();
            let mut r: Vec<(u64, u32)> = st
                .tasks
                .iter()
                .enumerate()
                .filter(|(_, t)| !t.finished && t.runnable_since != u64::MAX)
                .map(|(i, t)| (t.runnable_since, i as u32))
                .collect();
            r.sort_unstable();
            let nd = st
                .timers
                .iter()
                .filter(|t| t.alive && !t.fired)
                .map(|t| t.deadline)
                .min();
            (r, nd, st.early_fires < st.cfg.max_early_fires)
        };
        if runnable.is_empty() {
            return match next_deadline {
                None => Some(EndReason::Quiescent),
                Some(d) => {
                    if d > self.st.borrow().cfg.horizon {
                        Some(EndReason::Horizon)
                    } else {
                        self.advance_to(d);
                        None
                    }
                }
            };
        }
        let horizon = self.st.borrow().cfg.horizon;
        let early = early_ok && next_deadline.is_some_and(|d| d <= horizon);
        let n = runnable.len() + usize::from(early);
        let c = self.choose(n);
        if c >= runnable.len() {
            self.st.borrow_mut().early_fires += 1;
            self.advance_to(next_deadline.unwrap());
            return None;
        }
        self.poll_task(runnable[c].1);
        None
    }

    fn advance_to(&self, deadline: u64) {
        let wakers: Vec<Waker> = {
            let mut st = self.st.borrow_mut();
            st.step += 1;
            if deadline > st.now {
                st.now = deadline;
            }
            let now = st.now;
            crate::vclock::set(Some(now));
            st.hash = mix(st.hash, 0x71AE ^ now);
            st.timers
                .iter_mut()
                .filter(|t| t.alive && !t.fired && t.deadline <= now)
                .filter_map(|t| {
                    t.fired = true;
                    t.waker.take()
                })
                .collect()
        };
        let now = self.st.borrow().now;
        self.emit(ExecEvent::Time { now });
        for w in wakers {
            w.wake();
        }
    }

    fn poll_task(&self, id: u32) {
        let (mut fut, waker, cancel) = {
            let mut st = self.st.borrow_mut();
            st.step += 1;
            st.current = Some(id);
            st.zero_sleeps_this_poll = 0;
            let cancel_cfg = st.cfg.cancel;
            let t = &mut st.tasks[id as usize];
            t.runnable_since = u64::MAX;
            t.polls += 1;
            let mut cancel = t.cancel_requested;
            if let (Some((which, at)), TaskKind::Spawned(n)) = (cancel_cfg, t.kind) {
                if which == n as usize && at == t.polls {
                    cancel = true;
                }
            }
            let fut = t.fut.take().expect("task future present");
            let w = t.waker.clone();
            st.hash = mix(st.hash, 0xF011 ^ ((id as u64) << 1) ^ u64::from(cancel));
            (fut, w, cancel)
        };
        let end = if cancel {
            drop(fut);
            Some(TaskEnd::Cancelled)
        } else {
            let mut cx = Context::from_waker(&waker);
            let res = std::panic::catch_unwind(AssertUnwindSafe(|| fut.as_mut().poll(&mut cx)));
            match res {
                Ok(Poll::Pending) => {
                    self.st.borrow_mut().tasks[id as usize].fut = Some(fut);
                    None
                }
                Ok(Poll::Ready(())) => {
                    drop(fut);
                    Some(TaskEnd::Done)
                }
                Err(_) => {
                    // a panic that escaped a task: hannibal tasks are wrapped by the shim, so
                    // this is a client (harness) task; treated as finished
                    let _ = std::panic::catch_unwind(AssertUnwindSafe(move || drop(fut)));
                    Some(TaskEnd::Done)
                }
            }
        };
        {
            let mut st = self.st.borrow_mut();
            st.current = None;
            if end.is_some() {
                st.tasks[id as usize].finished = true;
            }
        }
        if let Some(how) = end {
            self.emit(ExecEvent::End { task: id, how });
        }
    }
}

// ---------------------------------------------------------------- virtual sleep

pub struct VSleep {
    timer: usize,
    /// identifies the execution the timer belongs to (guards against futures leaking between
    /// executions)
    epoch: u64,
}

thread_local! {
    static EPOCH: std::cell::Cell<u64> = const { std::cell::Cell::new(0) };
}

/// zero-length timers one poll may create before the task counts as spinning
const SPIN_LIMIT: u32 = 2_000;

/// panic payload that unwinds a spinning task
pub struct SpinAbort;

fn new_sleep(inner: &Inner, dur: Duration) -> VSleep {
    let mut st = inner.st.borrow_mut();
    // one tick = 1 ms; a shorter non-zero duration still takes time (rounded up, as tokio's wheel
    // does) - only a zero duration is ready at once
    let ticks = dur.as_micros().div_ceil(1000).min(u64::MAX as u128) as u64;
    if ticks == 0 && st.current.is_some() {
        st.zero_sleeps_this_poll += 1;
        if st.zero_sleeps_this_poll > SPIN_LIMIT {
            st.spinning = true;
            drop(st);
            std::panic::panic_any(SpinAbort);
        }
    }
    let deadline = st.now.saturating_add(ticks);
    st.timers.push(Timer {
        deadline,
        fired: ticks == 0,
        alive: true,
        waker: None,
    });
    st.hash = mix(st.hash, 0x7133 ^ deadline);
    VSleep {
        timer: st.timers.len() - 1,
        epoch: EPOCH.with(|e| e.get()),
    }
}

/// A virtual sleep on the current execution's clock (for harness actors and clients).
pub fn sleep(ticks: u64) -> VSleep {
    let i = cur().expect("vexec::sleep outside an execution");
    new_sleep(&i, Duration::from_millis(ticks))
}

impl Future for VSleep {
    type Output = ();
    fn poll(self: Pin<&mut Self>, cx: &mut Context<'_>) -> Poll<()> {
        let Some(i) = cur() else {
            return Poll::Pending;
        };
        if self.epoch != EPOCH.with(|e| e.get()) {
            return Poll::Pending;
        }
        let mut st = i.st.borrow_mut();
        let t = &mut st.timers[self.timer];
        if t.fired {
            Poll::Ready(())
        } else {
            t.waker = Some(cx.waker().clone());
            Poll::Pending
        }
    }
}

impl Drop for VSleep {
    fn drop(&mut self) {
        if self.epoch != EPOCH.with(|e| e.get()) {
            return;
        }
        if let Some(i) = cur() {
            if let Ok(mut st) = i.st.try_borrow_mut() {
                if let Some(t) = st.timers.get_mut(self.timer) {
                    t.alive = false;
                    t.waker = None;
                }
            }
        }
    }
}

/// Suspends the calling task once (it stays runnable).
pub struct YieldNow(bool);
pub fn yield_now() -> YieldNow {
    YieldNow(false)
}
impl Future for YieldNow {
    type Output = ();
    fn poll(mut self: Pin<&mut Self>, cx: &mut Context<'_>) -> Poll<()> {
        if self.0 {
            Poll::Ready(())
        } else {
            self.0 = true;
            cx.waker().wake_by_ref();
            Poll::Pending
        }
    }
}

// ---------------------------------------------------------------- backend

struct BackendImpl(Rc<Inner>);

impl hannibal::verif::Backend for BackendImpl {
    fn spawn(&self, fut: hannibal::verif::BoxFuture) -> u64 {
        self.0.spawn(fut, None) as u64
    }
    fn sleep(&self, dur: Duration) -> hannibal::verif::BoxFuture {
        Box::pin(new_sleep(&self.0, dur))
    }
    fn cancel(&self, task: u64) {
        let mut st = self.0.st.borrow_mut();
        let step = st.step;
        if let Some(t) = st.tasks.get_mut(task as usize) {
            if !t.finished {
                t.cancel_requested = true;
                if t.runnable_since == u64::MAX {
                    t.runnable_since = step;
                }
            }
        }
    }
    fn yield_at_lock(&self) -> bool {
        let (y, c) = {
            let st = self.0.st.borrow();
            (st.cfg.yield_at_lock, st.cfg.lock_yield_is_choice)
        };
        if y && c {
            self.0.choose(2) == 0
        } else {
            y
        }
    }
    fn yield_holding_lock(&self) -> bool {
        self.0.st.borrow().cfg.yield_holding_lock
    }
    fn coop_budget_exhausted(&self) -> bool {
        let c = self.0.st.borrow().cfg.coop_is_choice;
        c && self.0.choose(2) == 1
    }
}

// ---------------------------------------------------------------- one execution

/// Handle given to the scene's setup closure.
pub struct Exec(ExecKind);

enum ExecKind {
    Virtual(Rc<Inner>),
    /// real-runtime mode: client futures are only collected; the caller spawns them on the runtime
    Real(Rc<RefCell<Vec<(u8, LocalFuture)>>>),
}

impl Exec {
    pub fn spawn_client(&self, id: u8, fut: impl Future<Output = ()> + 'static) {
        match &self.0 {
            ExecKind::Virtual(inner) => {
                inner.spawn(Box::pin(fut), Some(id));
            }
            ExecKind::Real(v) => v.borrow_mut().push((id, Box::pin(fut))),
        }
    }

    /// An `Exec` that only collects the client futures (for runs on a real runtime).
    pub fn collector() -> (Exec, Rc<RefCell<Vec<(u8, LocalFuture)>>>) {
        let v = Rc::new(RefCell::new(Vec::new()));
        (Exec(ExecKind::Real(v.clone())), v)
    }
}

#[derive(Debug)]
pub struct ExecResult {
    pub choices: Vec<ChoiceRec>,
    pub steps: u64,
    pub fresh_steps: u64,
    pub end: EndReason,
    pub now: u64,
    pub hash: u64,
    /// tasks alive at the end: (task id, kind)
    pub live: Vec<(u32, TaskKind)>,
    pub divergence: Option<String>,
    pub capped: Option<&'static str>,
}

/// Runs one execution: installs the backend and the dependency seams, calls `setup`, runs the
/// schedule given by `prefix` (then defaults) to termination, tears everything down.
pub fn run_one(
    cfg: &ExecCfg,
    prefix: &[ChoiceRec],
    on_event: Option<Rc<dyn Fn(ExecEvent, u64, u64)>>,
    setup: &dyn Fn(&Exec),
    teardown_begin: &dyn Fn(),
) -> ExecResult {
    EPOCH.with(|e| e.set(e.get() + 1));
    let inner = Rc::new(Inner {
        st: RefCell::new(State {
            cfg: cfg.clone(),
            tasks: Vec::with_capacity(8),
            timers: Vec::with_capacity(8),
            now: 0,
            step: 0,
            current: None,
            spawned: 0,
            early_fires: 0,
            prefix: prefix.to_vec(),
            record: Vec::with_capacity(prefix.len() + 16),
            steps_at_prefix_end: 0,
            hash: 0x9E37_79B9_7F4A_7C15,
            divergence: None,
            capped: None,
            zero_sleeps_this_poll: 0,
            spinning: false,
            on_event,
        }),
        wakeq: Arc::new(WakeQ(Mutex::new(Vec::new()))),
    });
    CUR.with(|c| *c.borrow_mut() = Some(inner.clone()));
    hannibal::verif::install(Rc::new(BackendImpl(inner.clone())));
    {
        let i = inner.clone();
        futures_timer::verif_set_delay_provider(Some(Box::new(move |d| {
            Box::pin(new_sleep(&i, d)) as Pin<Box<dyn Future<Output = ()> + Send>>
        })));
    }
    if cfg.select_choice {
        let i = inner.clone();
        futures_util::verif_set_select_chooser(Some(Box::new(move |n| {
            // default (choice 0) = identity permutation = source order of the select! arms
            n - 1 - i.choose(n)
        })));
    } else {
        futures_util::verif_set_select_chooser(Some(Box::new(move |n| n - 1)));
    }

    crate::vclock::set(Some(0));
    setup(&Exec(ExecKind::Virtual(inner.clone())));

    let end = loop {
        if let Some(e) = inner.step() {
            break e;
        }
        let st = inner.st.borrow();
        if st.spinning {
            break EndReason::Spin;
        }
        if st.capped.is_some() {
            break EndReason::Quiescent;
        }
        if st.step >= st.cfg.max_steps {
            drop(st);
            inner.st.borrow_mut().capped = Some("max_steps");
            break EndReason::Quiescent;
        }
    };
    if end == EndReason::Spin && !inner.st.borrow().cfg.spin_is_outcome {
        inner.st.borrow_mut().capped = Some("a_task_spins_on_zero_length_timers");
    }

    // facts
    let (choices, steps, fresh, now, hash, live, divergence, capped) = {
        let st = inner.st.borrow();
        let live = st
            .tasks
            .iter()
            .enumerate()
            .filter(|(_, t)| !t.finished)
            .map(|(i, t)| (i as u32, t.kind))
            .collect();
        let fresh = if st.prefix.is_empty() {
            st.step
        } else {
            st.step.saturating_sub(st.steps_at_prefix_end)
        };
        (
            st.record.clone(),
            st.step,
            fresh,
            st.now,
            st.hash,
            live,
            st.divergence.clone(),
            st.capped,
        )
    };

    // tear-down: drop every task (their destructors may still call into the backend)
    teardown_begin();
    inner.st.borrow_mut().on_event = None;
    loop {
        let futs: Vec<LocalFuture> = {
            let mut st = inner.st.borrow_mut();
            st.tasks.iter_mut().filter_map(|t| t.fut.take()).collect()
        };
        if futs.is_empty() {
            break;
        }
        for f in futs {
            let _ = std::panic::catch_unwind(AssertUnwindSafe(move || drop(f)));
        }
    }
    futures_util::verif_set_select_chooser(None);
    crate::vclock::set(None);
    futures_timer::verif_set_delay_provider(None);
    hannibal::verif::uninstall();
    CUR.with(|c| *c.borrow_mut() = None);
    inner.wakeq.0.lock().unwrap().clear();

    ExecResult {
        choices,
        steps,
        fresh_steps: fresh,
        end,
        now,
        hash,
        live,
        divergence,
        capped,
    }
}

// ---------------------------------------------------------------- explorer

#[derive(Clone, Debug, Default)]
pub struct Stats {
    pub schedules: u64,
    pub states: u64,
    pub transitions: u64,
    pub replayed_steps: u64,
    pub max_depth: usize,
    /// alternatives were skipped because of the deviation bound
    pub pruned: bool,
    pub wall_hit: bool,
    /// the per-case execution cap was reached (the case is reported as not completed)
    pub case_capped: bool,
    pub determinism_reruns: u64,
    /// the case turned out larger than `abort_after` executions and was given up (to be split)
    pub aborted_too_big: bool,
    /// executions run only to learn the shape of the choice tree above the split depth
    pub structure_runs: u64,
}

/// Restricts an exploration to one share of the choice tree: executions are dealt to `parts`
/// shares by a hash of their first `depth` choices.
#[derive(Clone, Copy, Debug)]
pub struct Split {
    pub part: u32,
    pub parts: u32,
    pub depth: usize,
}

pub enum Control {
    Continue,
    /// stop exploring this case (e.g. enough violations collected)
    Stop,
}

#[derive(Debug)]
pub enum ExploreError {
    Nondeterminism(String),
    Capped(&'static str),
}

/// Depth-first exploration of all choice sequences (with at most `bound` non-default choices).
/// `run` performs one execution for the given prefix and returns its result plus a hash of the
/// complete observable log (used by the determinism re-runs); `visit` is called once per
/// complete execution.
#[allow(clippy::too_many_arguments)]
pub fn explore(
    bound: Option<u32>,
    deadline: Option<std::time::Instant>,
    rerun_first: u64,
    split: Option<Split>,
    abort_after: Option<u64>,
    case_cap: Option<u64>,
    run: &mut dyn FnMut(&[ChoiceRec]) -> (ExecResult, u64),
    visit: &mut dyn FnMut(&ExecResult) -> Control,
) -> Result<Stats, ExploreError> {
    let mut stats = Stats::default();
    let mut path: Vec<ChoiceRec> = Vec::new();
    loop {
        let prefix_len = path.len();
        let (res, loghash) = run(&path);
        if let Some(d) = &res.divergence {
            return Err(ExploreError::Nondeterminism(d.clone()));
        }
        if let Some(c) = res.capped {
            return Err(ExploreError::Capped(c));
        }
        if res.choices.len() < prefix_len {
            return Err(ExploreError::Nondeterminism(format!(
                "the execution ended after {} choice points although a prefix of {prefix_len} was being replayed",
                res.choices.len()
            )));
        }
        // does this execution belong to our share of the tree?
        let mine = match split {
            None => true,
            Some(sp) => {
                let mut h: u64 = 0x5eed;
                for i in 0..sp.depth {
                    let c = res.choices.get(i).map(|c| c.chosen as u64 + 1).unwrap_or(0);
                    h = mix(h, c);
                }
                (h >> 7) % sp.parts as u64 == sp.part as u64
            }
        };
        if !mine {
            // a foreign subtree: remember its shape down to the split depth only
            stats.structure_runs += 1;
            path = res.choices;
            path.truncate(split.map(|s| s.depth).unwrap_or(0));
            if !backtrack(&mut path, bound, &mut stats) {
                return Ok(stats);
            }
            continue;
        }
        if stats.schedules < rerun_first || (rerun_first > 0 && stats.schedules % 8192 == 0) {
            let (res2, loghash2) = run(&res.choices);
            stats.determinism_reruns += 1;
            if let Some(d) = &res2.divergence {
                return Err(ExploreError::Nondeterminism(format!("re-run: {d}")));
            }
            if loghash2 != loghash || res2.hash != res.hash || res2.choices != res.choices {
                return Err(ExploreError::Nondeterminism(format!(
                    "re-run of the same schedule gave a different log ({loghash:x} vs {loghash2:x})"
                )));
            }
        }
        stats.schedules += 1;
        stats.states += (res.choices.len() - prefix_len) as u64 + 1;
        stats.transitions += res.fresh_steps;
        stats.replayed_steps += res.steps - res.fresh_steps;
        stats.max_depth = stats.max_depth.max(res.choices.len());
        let ctl = visit(&res);
        path = res.choices;
        if matches!(ctl, Control::Stop) {
            return Ok(stats);
        }
        if let Some(dl) = deadline {
            if stats.schedules % 256 == 0 && std::time::Instant::now() >= dl {
                stats.wall_hit = true;
                return Ok(stats);
            }
        }
        if case_cap.is_some_and(|m| stats.schedules >= m) {
            stats.case_capped = true;
            return Ok(stats);
        }
        if abort_after.is_some_and(|m| stats.schedules >= m) {
            stats.aborted_too_big = true;
            return Ok(stats);
        }
        if !backtrack(&mut path, bound, &mut stats) {
            return Ok(stats);
        }
    }
}

/// Advances `path` to the next unexplored alternative; false when the tree is exhausted.
fn backtrack(path: &mut Vec<ChoiceRec>, bound: Option<u32>, stats: &mut Stats) -> bool {
    loop {
        let Some(last) = path.last().copied() else {
            return false;
        };
        if last.chosen + 1 < last.n {
            // deviation bound: going from 0 to 1 adds a deviation
            if let Some(b) = bound {
                if last.chosen == 0 {
                    let devs = path[..path.len() - 1].iter().filter(|c| c.chosen != 0).count();
                    if devs as u32 >= b {
                        stats.pruned = true;
                        path.pop();
                        continue;
                    }
                }
            }
            let l = path.len() - 1;
            path[l].chosen += 1;
            return true;
        }
        path.pop();
    }
}

/// Re-executes exactly one schedule given as plain choice indices.
pub fn choices_to_prefix(choices: &[(u32, u32)]) -> Vec<ChoiceRec> {
    choices
        .iter()
        .map(|&(chosen, n)| ChoiceRec { chosen, n, hash: 0 })
        .collect()
}
