//! Self-test of the executor and explorer on textbook programs with known answers.

use std::{cell::RefCell, collections::HashSet, rc::Rc};

use crate::vexec::{self, ChoiceRec, Control, ExecCfg, ExecResult};

fn explore_toy(
    cfg: &ExecCfg,
    bound: Option<u32>,
    setup: &dyn Fn(&vexec::Exec),
    result: &dyn Fn() -> u64,
) -> Result<(vexec::Stats, HashSet<u64>), vexec::ExploreError> {
    let outcomes = RefCell::new(HashSet::new());
    let mut run = |prefix: &[ChoiceRec]| {
        let r = vexec::run_one(cfg, prefix, None, setup, &|| {});
        let h = result();
        (r, h)
    };
    let last = RefCell::new(0u64);
    let mut run2 = |prefix: &[ChoiceRec]| {
        let (r, h) = run(prefix);
        *last.borrow_mut() = h;
        (r, h)
    };
    let mut visit = |_r: &ExecResult| {
        outcomes.borrow_mut().insert(*last.borrow());
        Control::Continue
    };
    let stats = vexec::explore(bound, None, 5, None, None, None, &mut run2, &mut visit)?;
    Ok((stats, outcomes.into_inner()))
}

pub fn main() -> i32 {
    let mut ok = true;
    let mut expect = |name: &str, cond: bool, detail: String| {
        println!("selftest {name}: {} {detail}", if cond { "ok" } else { "FAILED" });
        ok &= cond;
    };

    // 1. three tasks, two polls each: 6!/(2!2!2!) = 90 interleavings, 90 distinct orders
    {
        let order: Rc<RefCell<Vec<u8>>> = Rc::new(RefCell::new(vec![]));
        let o2 = order.clone();
        let setup = move |e: &vexec::Exec| {
            o2.borrow_mut().clear();
            for c in 0..3u8 {
                let o = o2.clone();
                e.spawn_client(c, async move {
                    o.borrow_mut().push(c);
                    vexec::yield_now().await;
                    o.borrow_mut().push(c);
                });
            }
        };
        let o3 = order.clone();
        let result = move || o3.borrow().iter().fold(7u64, |h, &c| h * 31 + c as u64);
        let (stats, outs) = explore_toy(&ExecCfg::default(), None, &setup, &result).unwrap();
        expect(
            "interleavings-3x2",
            stats.schedules == 90 && outs.len() == 90,
            format!("schedules={} outcomes={}", stats.schedules, outs.len()),
        );
        // deviation bound 0 explores exactly the default schedule
        let (s0, _) = explore_toy(&ExecCfg::default(), Some(0), &setup, &result).unwrap();
        let (s1, _) = explore_toy(&ExecCfg::default(), Some(1), &setup, &result).unwrap();
        expect(
            "deviation-bound",
            s0.schedules == 1 && s0.pruned && s1.schedules > 1 && s1.schedules < 90 && s1.pruned,
            format!("d0={} d1={}", s0.schedules, s1.schedules),
        );
    }

    // 2. lost update: read; yield; write(read+1) by two tasks -> final value in {1,2}
    {
        let v = Rc::new(RefCell::new(0u64));
        let v2 = v.clone();
        let setup = move |e: &vexec::Exec| {
            *v2.borrow_mut() = 0;
            for c in 0..2u8 {
                let v = v2.clone();
                e.spawn_client(c, async move {
                    let x = *v.borrow();
                    vexec::yield_now().await;
                    *v.borrow_mut() = x + 1;
                });
            }
        };
        let v3 = v.clone();
        let result = move || *v3.borrow();
        let (stats, outs) = explore_toy(&ExecCfg::default(), None, &setup, &result).unwrap();
        expect(
            "lost-update",
            outs == HashSet::from([1, 2]) && stats.schedules == 6,
            format!("schedules={} outcomes={:?}", stats.schedules, outs),
        );
    }

    // 3. virtual clock: sleeps fire in deadline order, time only advances when idle
    {
        let order: Rc<RefCell<Vec<(u8, u64)>>> = Rc::new(RefCell::new(vec![]));
        let o2 = order.clone();
        let setup = move |e: &vexec::Exec| {
            o2.borrow_mut().clear();
            for (c, d) in [(0u8, 5u64), (1, 2), (2, 5)] {
                let o = o2.clone();
                e.spawn_client(c, async move {
                    vexec::sleep(d).await;
                    o.borrow_mut().push((c, vexec::stamp().1));
                });
            }
        };
        let o3 = order.clone();
        let good = Rc::new(RefCell::new(true));
        let g2 = good.clone();
        let result = move || {
            let o = o3.borrow();
            let fine = o.len() == 3 && o[0] == (1, 2) && o[1].1 == 5 && o[2].1 == 5;
            if !fine {
                *g2.borrow_mut() = false;
            }
            o.iter().fold(3u64, |h, &(c, t)| h * 131 + c as u64 * 17 + t)
        };
        let (stats, outs) = explore_toy(&ExecCfg::default(), None, &setup, &result).unwrap();
        expect(
            "virtual-clock",
            *good.borrow() && outs.len() == 2,
            format!("schedules={} outcomes={}", stats.schedules, outs.len()),
        );
        // with early fires a sleeper may overtake a runnable task
        let cfg = ExecCfg { max_early_fires: 1, ..ExecCfg::default() };
        let o4 = order.clone();
        let setup2 = move |e: &vexec::Exec| {
            o4.borrow_mut().clear();
            let o = o4.clone();
            e.spawn_client(0, async move {
                vexec::sleep(3).await;
                o.borrow_mut().push((0, vexec::stamp().1));
            });
            let o = o4.clone();
            e.spawn_client(1, async move {
                vexec::yield_now().await;
                vexec::yield_now().await;
                o.borrow_mut().push((1, vexec::stamp().1));
            });
        };
        let o5 = order.clone();
        let result2 = move || o5.borrow().iter().fold(3u64, |h, &(c, t)| h * 131 + c as u64 * 17 + t);
        let (_, outs0) = explore_toy(&ExecCfg::default(), None, &setup2, &result2).unwrap();
        let (_, outs1) = explore_toy(&cfg, None, &setup2, &result2).unwrap();
        expect(
            "early-fire",
            outs0.len() == 1 && outs1.len() > 1,
            format!("discrete={} racy={}", outs0.len(), outs1.len()),
        );
    }

    // 4. uncontrolled nondeterminism must be detected
    {
        let counter = Rc::new(RefCell::new(0u64));
        let c2 = counter.clone();
        let setup = move |e: &vexec::Exec| {
            *c2.borrow_mut() += 1;
            let n = *c2.borrow();
            for c in 0..2u8 {
                e.spawn_client(c, async move {
                    vexec::yield_now().await;
                    // leaks state across executions: sometimes yields once more
                    if n % 3 == 0 && c == 0 {
                        vexec::yield_now().await;
                    }
                    vexec::observe(c as u64);
                });
            }
        };
        let r = explore_toy(&ExecCfg::default(), None, &setup, &|| 0);
        expect(
            "nondeterminism-detected",
            matches!(r, Err(vexec::ExploreError::Nondeterminism(_))),
            format!("{:?}", r.as_ref().err()),
        );
    }

    if ok {
        println!("selftest: all ok");
        0
    } else {
        2
    }
}
