//! Harness world: event log, harness actors (ordinary users of hannibal's public API),
//! messages, per-role behaviour configuration.

use std::{cell::RefCell, time::Duration};

use hannibal::{prelude::*, Addr, RestartableActor};

use crate::vexec::{self, ExecEvent};

// ------------------------------------------------------------------ events

#[derive(Clone, Copy, Debug, PartialEq, Eq, Hash, PartialOrd, Ord)]
pub enum Cb {
    Started,
    Stopped,
    Finished,
    /// Note / Ask / Cmd with this message id
    Msg(u32),
    /// stream item
    Item(u32),
    /// timer tick: timer id, incarnation that registered the timer
    Tick { timer: u8, reg_inc: u16 },
    /// body of a delayed_exec
    Exec { timer: u8, reg_inc: u16 },
    /// broker topic delivery
    Topic { topic: u8, id: u32 },
    /// broadcast to children: message type, id
    Bcast { ty: u8, id: u32 },
    Unit,
}

#[derive(Clone, Copy, Debug, PartialEq, Eq, Hash)]
pub struct Reply {
    pub id: u32,
    pub inst: u16,
    pub inc: u16,
    /// how many times a message with this id has been handled (1 = once)
    pub nth: u32,
    /// fold of all completed handlers up to and including this one
    pub digest: u64,
}

#[derive(Clone, Copy, Debug, PartialEq, Eq, Hash)]
pub struct JoinVal {
    pub inst: u16,
    pub inc: u16,
    pub digest: u64,
    pub handled: u32,
    pub stopped_seen: bool,
}

#[derive(Clone, Copy, Debug, PartialEq, Eq, Hash)]
pub enum ErrKind {
    Send,
    Canceled,
    AlreadyStopped,
    NotFound,
    StillRunning,
    Timeout,
}

pub fn errkind(e: &hannibal::error::ActorError) -> ErrKind {
    use hannibal::error::ActorError::*;
    match e {
        AsyncSendError(_) => ErrKind::Send,
        Canceled(_) => ErrKind::Canceled,
        AlreadyStopped => ErrKind::AlreadyStopped,
        ServiceNotFound => ErrKind::NotFound,
        ServiceStillRunning => ErrKind::StillRunning,
        Timeout => ErrKind::Timeout,
    }
}

/// Result of a client operation.
#[derive(Clone, Copy, Debug, PartialEq, Eq, Hash)]
pub enum Res {
    Ok,
    Err(ErrKind),
    Reply(Reply),
    Some,
    None,
    Joined(JoinVal),
    Bool(bool),
    OptBool(Option<bool>),
    /// instance id (registry lookups), None = no instance
    Inst(Option<u16>),
    /// registry result: an entry was returned (present), and which instance answered the
    /// identity call made through it (None: it no longer answers)
    Reg { present: bool, ident: Option<u16> },
    /// register succeeded: instance registered, whether an old entry was handed back
    Registered { new: u16, replaced: bool },
    Panicked,
    /// the client gave the operation up before it completed (its future was dropped)
    Abandoned,
}

impl Res {
    pub fn is_ok(&self) -> bool {
        !matches!(self, Res::Err(_) | Res::None | Res::Panicked | Res::Abandoned)
    }
}

#[derive(Clone, Copy, Debug, PartialEq, Eq, Hash)]
pub enum CtxOp {
    Stop,
    Restart,
    UpWeakSender,
    UpWeakAddr,
    UpWeakCaller,
    Subscribe,
    Publish,
    PeerCall,
    Lookup,
    /// the handler posted Note(id) to its own actor
    SelfSend(u32),
    /// the future given to delayed_exec for this timer was dropped (logged for the timers armed
    /// with a duration nobody will see the end of: such a future lives as long as its actor)
    ExecDropped(u8),
}

#[derive(Clone, Copy, Debug, PartialEq, Eq, Hash)]
pub enum Ev {
    /// a harness actor value was created (Probe::new / Default::default)
    New { a: u8, inst: u16 },
    Begin { c: u8, i: u16 },
    End { c: u8, i: u16, r: Res },
    Enter { a: u8, inst: u16, inc: u16, cb: Cb },
    /// progress mark inside a handler, after its simulated work
    After { a: u8, inst: u16, inc: u16, cb: Cb },
    Exit { a: u8, inst: u16, inc: u16, cb: Cb },
    /// result of a context operation performed inside a callback
    Ctx { a: u8, op: CtxOp, ok: bool },
    X(XEv),
}

/// Executor events as logged (task ids are spawn-order indices).
#[derive(Clone, Copy, Debug, PartialEq, Eq, Hash)]
pub enum XEv {
    Spawn { task: u32, client: bool, parent: Option<u32> },
    End { task: u32, cancelled: bool },
    Time { now: u64 },
}

#[derive(Clone, Copy, Debug)]
pub struct Entry {
    pub step: u64,
    pub time: u64,
    /// task that was running when the entry was logged (u32::MAX: none)
    pub task: u32,
    pub ev: Ev,
}

// ------------------------------------------------------------------ behaviour configuration

#[derive(Clone, Copy, Debug, PartialEq, Eq)]
pub enum StartBeh {
    Ok,
    Err,
    Panic,
}

#[derive(Clone, Copy, Debug, Default, PartialEq, Eq)]
pub struct Work {
    pub yields: u8,
    pub sleep: u32,
    pub panic: bool,
    /// wait the `sleep` ticks as that many separate one-tick waits (the handler is woken and
    /// polled in between) instead of one long wait
    pub split: bool,
    /// a command message performs its context operation *before* this work instead of after it
    pub act_first: bool,
}

#[derive(Clone, Copy, Debug, PartialEq, Eq)]
pub enum Action {
    Stop,
    Restart,
    Interval { timer: u8, period: u32 },
    IntervalWith { timer: u8, period: u32 },
    DelayedSend { timer: u8, delay: u32 },
    DelayedExec { timer: u8, delay: u32 },
    /// delayed_exec of a future that itself takes `work` ticks before its effect (the log entry):
    /// it belongs to the incarnation that registered it from the moment it is registered until it
    /// is through, the delay being only the first part of that
    LongExec { timer: u8, delay: u32, work: u32 },
    /// hold the `Addr` stored under `key` as a child (add_child)
    AddChild { key: u8 },
    /// hold it under broadcast type `ty` (register_child::<Bc1|Bc2>)
    RegisterChild { key: u8, ty: u8 },
    Broadcast { ty: u8, id: u32 },
    Subscribe { topic: u8 },
    Publish { topic: u8, id: u32 },
    /// register `n` one-shot timers (delayed_send, 1 tick, timer ids 100, 101, ...) in one go
    ManyOneShots { n: u8 },
    /// publish `id` and `id + 1` on topic 1, one after the other, from the same handler
    PublishTwice { id: u32 },
    UpWeakSender,
    UpWeakAddr,
    UpWeakCaller,
    /// call the actor stored under `key` with Ask(id)
    PeerCall { key: u8, id: u32 },
    /// look up (and thereby spawn on demand) the service `Probe<k>` (k = 1 or 2) and call it
    LookupService { k: u8 },
    /// the handler posts Note(id) to its own actor through a weak sender its context makes
    /// (`force`: try_force_send, otherwise the waiting try_send - unbounded mailboxes only, an
    /// actor that waits for room in its own full mailbox waits forever)
    SelfNote { id: u32, force: bool },
    /// put the weak sender and the weak caller this actor's context makes where clients can pick
    /// them up (`Op::AdoptCtx`): handles minted by the context are handles like any other
    ShareCtxHandles,
}

#[derive(Clone, Debug)]
pub struct RoleCfg {
    /// behaviour of the n-th start (beyond the end: Ok)
    pub started: Vec<StartBeh>,
    pub started_yields: u8,
    /// virtual time `started()` takes
    pub started_sleep: u32,
    /// context operations performed in every `started`
    pub started_actions: Vec<Action>,
    pub stopped_yields: u8,
    /// virtual time `stopped()` takes
    pub stopped_sleep: u32,
    pub stopped_panic: bool,
    /// context operations performed in `stopped` (after its simulated duration)
    pub stopped_actions: Vec<Action>,
    /// per message id
    pub work: Vec<(u32, Work)>,
    pub default_work: Work,
    /// work performed by tick handlers
    pub tick_work: Work,
    /// ... except for the n-th tick this role handles (1-based), which does this instead
    pub slow_tick: Option<(u32, Work)>,
    /// length of one tick of the timers this scene's actors register, in microseconds (role 0's
    /// value counts; 1000 unless a scene wants durations below the clock's resolution)
    pub tick_us: u32,
    /// context operation performed by the handler of the Note/Ask with this id (after its work)
    pub msg_actions: Vec<(u32, Action)>,
}

impl Default for RoleCfg {
    fn default() -> Self {
        RoleCfg {
            started: vec![],
            started_yields: 0,
            started_sleep: 0,
            started_actions: vec![],
            stopped_yields: 0,
            stopped_sleep: 0,
            stopped_panic: false,
            stopped_actions: vec![],
            work: vec![],
            default_work: Work::default(),
            tick_work: Work::default(),
            slow_tick: None,
            tick_us: 1000,
            msg_actions: vec![],
        }
    }
}

pub enum Stored {
    Addr(Addr<Probe<0>>),
}

pub struct World {
    pub log: Vec<Entry>,
    pub loghash: u64,
    pub teardown: bool,
    pub roles: Vec<RoleCfg>,
    pub starts: Vec<u16>,
    /// per role: ticks handled so far
    pub ticks: Vec<u32>,
    pub next_inst: u16,
    /// role given to `Probe::<K>::default()`
    pub default_role: [u8; 4],
    pub store: Vec<Option<Stored>>,
    /// per message id: number of handler invocations so far
    pub invocations: Vec<(u32, u32)>,
    pub real_mode: bool,
    /// length of one tick of the library's timers in microseconds (1000, or less for the
    /// programs with sub-millisecond timers; the harness' own sleeps are whole ticks)
    pub tick_us: u32,
}

impl World {
    const fn new() -> Self {
        World {
            log: Vec::new(),
            loghash: 0,
            teardown: false,
            roles: Vec::new(),
            starts: Vec::new(),
            ticks: Vec::new(),
            next_inst: 0,
            default_role: [0; 4],
            store: Vec::new(),
            invocations: Vec::new(),
            real_mode: false,
            tick_us: 1000,
        }
    }
}

thread_local! {
    pub static W: RefCell<World> = const { RefCell::new(World::new()) };
}

/// Resets the world for a new execution.
pub fn reset(roles: Vec<RoleCfg>) {
    W.with(|w| {
        let mut w = w.borrow_mut();
        w.log.clear();
        w.loghash = 0x1234_5678;
        w.teardown = false;
        w.tick_us = roles.first().map(|r| r.tick_us).unwrap_or(1000);
        w.starts = vec![0; roles.len()];
        w.ticks = vec![0; roles.len()];
        w.roles = roles;
        w.next_inst = 0;
        w.default_role = [0; 4];
        w.store.clear();
        w.invocations.clear();
    });
    CTX_SHARE.with(|c| *c.borrow_mut() = None);
}

pub fn take_log() -> Vec<Entry> {
    W.with(|w| std::mem::take(&mut w.borrow_mut().log))
}

pub fn set_real_mode(on: bool) {
    W.with(|w| w.borrow_mut().real_mode = on);
}

pub fn begin_teardown() {
    W.with(|w| w.borrow_mut().teardown = true);
}

pub fn loghash() -> u64 {
    W.with(|w| w.borrow().loghash)
}

#[derive(Default)]
pub struct Fx(u64);
impl std::hash::Hasher for Fx {
    fn finish(&self) -> u64 {
        self.0
    }
    fn write(&mut self, bytes: &[u8]) {
        for &b in bytes {
            self.0 = (self.0.rotate_left(5) ^ b as u64).wrapping_mul(0x517c_c1b7_2722_0a95);
        }
    }
    fn write_u8(&mut self, i: u8) {
        self.write_u64(i as u64)
    }
    fn write_u16(&mut self, i: u16) {
        self.write_u64(i as u64)
    }
    fn write_u32(&mut self, i: u32) {
        self.write_u64(i as u64)
    }
    fn write_u64(&mut self, i: u64) {
        self.0 = (self.0.rotate_left(5) ^ i).wrapping_mul(0x517c_c1b7_2722_0a95);
    }
    fn write_usize(&mut self, i: usize) {
        self.write_u64(i as u64)
    }
}

pub fn hash_of<T: std::hash::Hash>(t: &T) -> u64 {
    use std::hash::Hasher;
    let mut h = Fx(0xABCD);
    t.hash(&mut h);
    h.finish()
}

pub fn log(ev: Ev) {
    let h = hash_of(&ev);
    let (step, time, task) = vexec::stamp();
    let pushed = W.with(|w| {
        let mut w = w.borrow_mut();
        if w.teardown {
            return false;
        }
        let step = if w.real_mode { w.log.len() as u64 } else { step };
        w.loghash = (w.loghash.rotate_left(7) ^ h).wrapping_mul(0x9E37_79B9_7F4A_7C15);
        w.log.push(Entry { step, time, task, ev });
        true
    });
    if pushed {
        vexec::observe(h);
    }
}

pub fn log_exec(ev: ExecEvent) {
    let x = match ev {
        ExecEvent::Spawn { task, kind, parent } => XEv::Spawn {
            task,
            client: matches!(kind, vexec::TaskKind::Client(_)),
            parent,
        },
        ExecEvent::End { task, how } => XEv::End {
            task,
            cancelled: how == vexec::TaskEnd::Cancelled,
        },
        ExecEvent::Time { now } => XEv::Time { now },
    };
    log(Ev::X(x));
}

thread_local! {
    /// weak handles made by an actor's own context (`Action::ShareCtxHandles`)
    pub static CTX_SHARE: RefCell<Option<(hannibal::WeakSender<Note>, hannibal::WeakCaller<Ask>, Option<hannibal::WeakAddr<P>>)>> = const { RefCell::new(None) };
}

pub fn store_put(s: Stored) -> u8 {
    W.with(|w| {
        let mut w = w.borrow_mut();
        w.store.push(Some(s));
        (w.store.len() - 1) as u8
    })
}

pub fn store_take(key: u8) -> Option<Stored> {
    W.with(|w| w.borrow_mut().store.get_mut(key as usize).and_then(Option::take))
}

pub fn store_peek_addr(key: u8) -> Option<Addr<Probe<0>>> {
    W.with(|w| match w.borrow().store.get(key as usize) {
        Some(Some(Stored::Addr(a))) => Some(a.clone()),
        _ => None,
    })
}

/// two tick counts that stand for durations no run will see the end of
pub const FOREVER: u32 = u32::MAX;
pub const AGES: u32 = u32::MAX - 1;

pub fn ms(t: u32) -> Duration {
    match t {
        FOREVER => Duration::MAX,
        // (a count of milliseconds that does not fit 64 bits)
        AGES => Duration::from_secs(1 << 62),
        _ => Duration::from_micros(t as u64 * W.with(|w| w.borrow().tick_us) as u64),
    }
}

/// the number of virtual ticks a timer duration of `t` scene ticks takes (for the oracles)
pub fn eff_ticks(t: u32, tick_us: u32) -> u64 {
    match t {
        FOREVER | AGES => u64::MAX / 4,
        _ => (t as u64 * tick_us as u64).div_ceil(1000),
    }
}

/// Virtual sleep usable from `Send` handler futures.
pub fn sleep(ticks: u32) -> std::pin::Pin<Box<dyn std::future::Future<Output = ()> + Send>> {
    let real = W.with(|w| w.borrow().real_mode);
    if real {
        #[cfg(feature = "rt-tokio")]
        {
            return Box::pin(tokio::time::sleep(ms(ticks)));
        }
        #[cfg(not(feature = "rt-tokio"))]
        {
            return Box::pin(futures_timer::Delay::new(ms(ticks)));
        }
    }
    Box::pin(vexec::sleep(ticks as u64))
}

pub struct Injected;

async fn do_work(w: Work) {
    for _ in 0..w.yields {
        vexec::yield_now().await;
    }
    if w.split {
        for _ in 0..w.sleep {
            sleep(1).await;
        }
    } else if w.sleep > 0 {
        sleep(w.sleep).await;
    }
    if w.panic {
        std::panic::panic_any(Injected);
    }
}

// ------------------------------------------------------------------ messages

pub struct Note(pub u32);
impl Message for Note {
    type Response = ();
}

pub struct Ask(pub u32);
impl Message for Ask {
    type Response = Reply;
}

pub struct Cmd(pub u32, pub Action);
impl Message for Cmd {
    type Response = ();
}

#[derive(Clone, Copy)]
pub struct Tick {
    pub timer: u8,
    pub reg_inc: u16,
}
impl Message for Tick {
    type Response = ();
}

#[derive(Clone)]
pub struct T1(pub u32);
impl Message for T1 {
    type Response = ();
}
#[derive(Clone)]
pub struct T2(pub u32);
impl Message for T2 {
    type Response = ();
}

#[derive(Clone)]
pub struct Bc1(pub u32);
impl Message for Bc1 {
    type Response = ();
}
#[derive(Clone)]
pub struct Bc2(pub u32);
impl Message for Bc2 {
    type Response = ();
}

pub struct Item(pub u32);

// ------------------------------------------------------------------ the probe actor

#[derive(Debug)]
pub struct Probe<const K: u8> {
    pub role: u8,
    pub inst: u16,
    pub inc: u16,
    pub handled: u32,
    pub digest: u64,
    pub stopped_seen: bool,
}

pub type P = Probe<0>;

pub const DIGEST0: u64 = 0xD16E57;

pub fn fold(d: u64, id: u32) -> u64 {
    (d.rotate_left(9) ^ id as u64).wrapping_mul(0x2545_f491_4f6c_dd1d)
}

impl<const K: u8> Probe<K> {
    pub fn new(role: u8) -> Self {
        let inst = W.with(|w| {
            let mut w = w.borrow_mut();
            w.next_inst += 1;
            w.next_inst - 1
        });
        log(Ev::New { a: role, inst });
        Probe {
            role,
            inst,
            inc: 0,
            handled: 0,
            digest: DIGEST0,
            stopped_seen: false,
        }
    }

    pub fn join_val(&self) -> JoinVal {
        JoinVal {
            inst: self.inst,
            inc: self.inc,
            digest: self.digest,
            handled: self.handled,
            stopped_seen: self.stopped_seen,
        }
    }

    fn enter(&self, cb: Cb) {
        log(Ev::Enter {
            a: self.role,
            inst: self.inst,
            inc: self.inc,
            cb,
        });
    }
    fn after(&self, cb: Cb) {
        log(Ev::After {
            a: self.role,
            inst: self.inst,
            inc: self.inc,
            cb,
        });
    }
    fn exit(&self, cb: Cb) {
        log(Ev::Exit {
            a: self.role,
            inst: self.inst,
            inc: self.inc,
            cb,
        });
    }

    fn work_for(&self, id: u32) -> Work {
        W.with(|w| {
            let w = w.borrow();
            let r = &w.roles[self.role as usize];
            r.work
                .iter()
                .find(|(m, _)| *m == id)
                .map(|(_, wk)| *wk)
                .unwrap_or(r.default_work)
        })
    }

    fn action_for(&self, id: u32) -> Option<Action> {
        W.with(|w| {
            let w = w.borrow();
            w.roles[self.role as usize].msg_actions.iter().find(|(m, _)| *m == id).map(|(_, a)| *a)
        })
    }

    async fn run_msg(&mut self, ctx: &mut Context<Self>, id: u32) -> Reply {
        let cb = Cb::Msg(id);
        self.enter(cb);
        let nth = W.with(|w| {
            let mut w = w.borrow_mut();
            if let Some(e) = w.invocations.iter_mut().find(|(m, _)| *m == id) {
                e.1 += 1;
                e.1
            } else {
                w.invocations.push((id, 1));
                1
            }
        });
        do_work(self.work_for(id)).await;
        if let Some(a) = self.action_for(id) {
            self.act(ctx, a).await;
        }
        self.after(cb);
        self.handled += 1;
        self.digest = fold(self.digest, id);
        let reply = Reply {
            id,
            inst: self.inst,
            inc: self.inc,
            nth,
            digest: self.digest,
        };
        self.exit(cb);
        reply
    }

    async fn act(&mut self, ctx: &mut Context<Self>, a: Action) {
        let role = self.role;
        let reg_inc = self.inc;
        let ctxlog = |op, ok| log(Ev::Ctx { a: role, op, ok });
        match a {
            Action::Stop => ctxlog(CtxOp::Stop, ctx.stop().is_ok()),
            Action::Restart => ctxlog(CtxOp::Restart, ctx.restart().is_ok()),
            Action::Interval { timer, period } => {
                ctx.interval(Tick { timer, reg_inc }, ms(period))
            }
            Action::IntervalWith { timer, period } => {
                ctx.interval_with(move || Tick { timer, reg_inc }, ms(period))
            }
            Action::DelayedSend { timer, delay } => {
                ctx.delayed_send(move || Tick { timer, reg_inc }, ms(delay))
            }
            Action::DelayedExec { timer, delay } => {
                let inst = self.inst;
                struct Guard(Option<(u8, u8)>);
                impl Drop for Guard {
                    fn drop(&mut self) {
                        if let Some((a, timer)) = self.0 {
                            log(Ev::Ctx { a, op: CtxOp::ExecDropped(timer), ok: true });
                        }
                    }
                }
                let guard = Guard((delay >= AGES).then_some((role, timer)));
                ctx.delayed_exec(
                    async move {
                        let _guard = guard;
                        log(Ev::Enter {
                            a: role,
                            inst,
                            inc: reg_inc,
                            cb: Cb::Exec { timer, reg_inc },
                        });
                    },
                    ms(delay),
                )
            }
            Action::LongExec { timer, delay, work } => {
                let inst = self.inst;
                ctx.delayed_exec(
                    async move {
                        sleep(work).await;
                        log(Ev::Enter {
                            a: role,
                            inst,
                            inc: reg_inc,
                            cb: Cb::Exec { timer, reg_inc },
                        });
                    },
                    ms(delay),
                )
            }
            Action::AddChild { key } => {
                if let Some(Stored::Addr(addr)) = store_take(key) {
                    ctx.add_child(addr);
                }
            }
            Action::RegisterChild { key, ty } => {
                if let Some(Stored::Addr(addr)) = store_take(key) {
                    if ty == 1 {
                        ctx.register_child::<Bc1>(addr);
                    } else {
                        ctx.register_child::<Bc2>(addr);
                    }
                }
            }
            Action::Broadcast { ty, id } => {
                if ty == 0 {
                    // (the unit message: what children held with add_child are registered for)
                    ctx.send_to_children(());
                } else if ty == 1 {
                    ctx.send_to_children(Bc1(id));
                } else {
                    ctx.send_to_children(Bc2(id));
                }
            }
            #[cfg(any(feature = "rt-tokio", feature = "rt-async"))]
            Action::Subscribe { topic } => {
                let ok = if topic == 1 {
                    ctx.subscribe::<T1>().await.is_ok()
                } else {
                    ctx.subscribe::<T2>().await.is_ok()
                };
                ctxlog(CtxOp::Subscribe, ok)
            }
            #[cfg(any(feature = "rt-tokio", feature = "rt-async"))]
            Action::Publish { topic, id } => {
                let ok = if topic == 1 {
                    ctx.publish(T1(id)).await.is_ok()
                } else {
                    ctx.publish(T2(id)).await.is_ok()
                };
                ctxlog(CtxOp::Publish, ok)
            }
            #[cfg(any(feature = "rt-tokio", feature = "rt-async"))]
            Action::PublishTwice { id } => {
                let a = ctx.publish(T1(id)).await.is_ok();
                let b = ctx.publish(T1(id + 1)).await.is_ok();
                ctxlog(CtxOp::Publish, a && b)
            }
            #[cfg(not(any(feature = "rt-tokio", feature = "rt-async")))]
            Action::Subscribe { .. } | Action::Publish { .. } | Action::PublishTwice { .. } => {}
            Action::UpWeakSender => ctxlog(
                CtxOp::UpWeakSender,
                ctx.weak_sender::<Note>().upgrade().is_some(),
            ),
            Action::UpWeakAddr => ctxlog(
                CtxOp::UpWeakAddr,
                ctx.weak_address().and_then(|w| w.upgrade()).is_some(),
            ),
            Action::UpWeakCaller => ctxlog(
                CtxOp::UpWeakCaller,
                ctx.weak_caller::<Ask, crate::world::Reply>().upgrade().is_some(),
            ),
            Action::PeerCall { key, id } => {
                if let Some(peer) = store_peek_addr(key) {
                    let r = peer.call(Ask(id)).await;
                    ctxlog(CtxOp::PeerCall, r.is_ok());
                }
            }
            Action::SelfNote { id, force } => {
                let w = ctx.weak_sender::<Note>();
                let ok = if force { w.try_force_send(Note(id)).is_ok() } else { w.try_send(Note(id)).await.is_ok() };
                ctxlog(CtxOp::SelfSend(id), ok)
            }
            Action::ManyOneShots { n } => {
                for k in 0..n {
                    let timer = 100 + k;
                    ctx.delayed_send(move || Tick { timer, reg_inc }, ms(1));
                }
            }
            Action::ShareCtxHandles => {
                // (the weak address is typed by the actor: kept for Probe<0> only)
                let wa = ctx.weak_address().and_then(|w| (&w as &dyn std::any::Any).downcast_ref::<hannibal::WeakAddr<P>>().cloned());
                let triple = (ctx.weak_sender::<Note>(), ctx.weak_caller::<Ask, crate::world::Reply>(), wa);
                CTX_SHARE.with(|c| *c.borrow_mut() = Some(triple));
            }
            Action::LookupService { k } => {
                let ok = if k == 1 {
                    Probe::<1>::from_registry().await.call(Ask(9001)).await.is_ok()
                } else {
                    Probe::<2>::from_registry().await.call(Ask(9001)).await.is_ok()
                };
                ctxlog(CtxOp::Lookup, ok);
            }
        }
    }
}

impl<const K: u8> Default for Probe<K> {
    fn default() -> Self {
        let role = W.with(|w| w.borrow().default_role[K as usize]);
        Self::new(role)
    }
}

impl<const K: u8> RestartableActor for Probe<K> {}
impl<const K: u8> Service for Probe<K> {}

impl<const K: u8> Actor for Probe<K> {
    async fn started(&mut self, ctx: &mut Context<Self>) -> DynResult<()> {
        let (inc, beh, yields, actions, start_sleep) = W.with(|w| {
            let mut w = w.borrow_mut();
            let r = self.role as usize;
            let n = w.starts[r];
            w.starts[r] += 1;
            let rc = &w.roles[r];
            (
                n,
                rc.started.get(n as usize).copied().unwrap_or(StartBeh::Ok),
                rc.started_yields,
                rc.started_actions.clone(),
                rc.started_sleep,
            )
        });
        self.inc = inc;
        self.enter(Cb::Started);
        for a in actions {
            self.act(ctx, a).await;
        }
        for _ in 0..yields {
            vexec::yield_now().await;
        }
        if start_sleep > 0 {
            sleep(start_sleep).await;
        }
        match beh {
            StartBeh::Ok => {}
            StartBeh::Err => {
                self.exit(Cb::Started);
                return Err("injected start failure".into());
            }
            StartBeh::Panic => std::panic::panic_any(Injected),
        }
        self.exit(Cb::Started);
        Ok(())
    }

    async fn stopped(&mut self, ctx: &mut Context<Self>) {
        let (yields, panic, stop_sleep, actions) = W.with(|w| {
            let w = w.borrow();
            let rc = &w.roles[self.role as usize];
            (rc.stopped_yields, rc.stopped_panic, rc.stopped_sleep, rc.stopped_actions.clone())
        });
        self.enter(Cb::Stopped);
        for _ in 0..yields {
            vexec::yield_now().await;
        }
        if stop_sleep > 0 {
            sleep(stop_sleep).await;
        }
        for a in actions {
            self.act(ctx, a).await;
        }
        if panic {
            std::panic::panic_any(Injected);
        }
        self.stopped_seen = true;
        self.exit(Cb::Stopped);
    }
}

impl<const K: u8> Handler<Note> for Probe<K> {
    async fn handle(&mut self, ctx: &mut Context<Self>, m: Note) {
        self.run_msg(ctx, m.0).await;
    }
}

impl<const K: u8> Handler<Ask> for Probe<K> {
    async fn handle(&mut self, ctx: &mut Context<Self>, m: Ask) -> Reply {
        self.run_msg(ctx, m.0).await
    }
}

impl<const K: u8> Handler<Cmd> for Probe<K> {
    async fn handle(&mut self, ctx: &mut Context<Self>, m: Cmd) {
        let cb = Cb::Msg(m.0);
        self.enter(cb);
        let work = self.work_for(m.0);
        if work.act_first {
            self.act(ctx, m.1).await;
            do_work(work).await;
        } else {
            do_work(work).await;
            self.act(ctx, m.1).await;
        }
        self.after(cb);
        self.handled += 1;
        self.digest = fold(self.digest, m.0);
        self.exit(cb);
    }
}

impl<const K: u8> Handler<Tick> for Probe<K> {
    async fn handle(&mut self, _ctx: &mut Context<Self>, m: Tick) {
        let cb = Cb::Tick {
            timer: m.timer,
            reg_inc: m.reg_inc,
        };
        self.enter(cb);
        let work = W.with(|w| {
            let mut w = w.borrow_mut();
            let r = self.role as usize;
            w.ticks[r] += 1;
            match w.roles[r].slow_tick {
                Some((n, work)) if n == w.ticks[r] => work,
                _ => w.roles[r].tick_work,
            }
        });
        do_work(work).await;
        self.exit(cb);
    }
}

impl<const K: u8> Handler<T1> for Probe<K> {
    async fn handle(&mut self, _ctx: &mut Context<Self>, m: T1) {
        let cb = Cb::Topic { topic: 1, id: m.0 };
        self.enter(cb);
        self.exit(cb);
    }
}
impl<const K: u8> Handler<T2> for Probe<K> {
    async fn handle(&mut self, _ctx: &mut Context<Self>, m: T2) {
        let cb = Cb::Topic { topic: 2, id: m.0 };
        self.enter(cb);
        self.exit(cb);
    }
}
impl<const K: u8> Handler<Bc1> for Probe<K> {
    async fn handle(&mut self, _ctx: &mut Context<Self>, m: Bc1) {
        let cb = Cb::Bcast { ty: 1, id: m.0 };
        self.enter(cb);
        self.exit(cb);
    }
}
impl<const K: u8> Handler<Bc2> for Probe<K> {
    async fn handle(&mut self, _ctx: &mut Context<Self>, m: Bc2) {
        let cb = Cb::Bcast { ty: 2, id: m.0 };
        self.enter(cb);
        self.exit(cb);
    }
}
impl<const K: u8> Handler<()> for Probe<K> {
    async fn handle(&mut self, _ctx: &mut Context<Self>, _m: ()) {
        self.enter(Cb::Unit);
        self.exit(Cb::Unit);
    }
}

/// A second item type, handled the same way - but `finished` is *not* overridden for it: an actor
/// attached to a stream of these relies on the trait's provided default.
pub struct PlainItem(pub u32);

impl<const K: u8> StreamHandler<PlainItem> for Probe<K> {
    async fn handle(&mut self, ctx: &mut Context<Self>, m: PlainItem) {
        <Self as StreamHandler<Item>>::handle(self, ctx, Item(m.0)).await
    }
}

impl<const K: u8> StreamHandler<Item> for Probe<K> {
    async fn handle(&mut self, ctx: &mut Context<Self>, m: Item) {
        let cb = Cb::Item(m.0);
        self.enter(cb);
        do_work(self.work_for(m.0)).await;
        // (an item handler may act on the context like any other handler: `msg_actions` is keyed
        // by the item's id)
        if let Some(a) = self.action_for(m.0) {
            self.act(ctx, a).await;
        }
        self.after(cb);
        self.handled += 1;
        self.digest = fold(self.digest, m.0);
        self.exit(cb);
    }

    async fn finished(&mut self, _ctx: &mut Context<Self>) {
        self.enter(Cb::Finished);
        self.exit(Cb::Finished);
    }
}
