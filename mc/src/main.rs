#![allow(dead_code)]
//! `mc check <ID> <quick|thorough>` | `mc worker ..` (internal) | `mc replay <file>` | `mc selftest` | `mc list`
mod c18cmp;
mod check;
mod conformance;
mod ops;
mod progscene;
mod trace;
mod props;
mod scenes;
mod selftest;
mod vclock;
mod vexec;
mod world;

use check::Tier;

fn tier_of(s: &str) -> Tier {
    match s {
        "thorough" => Tier::Thorough,
        _ => Tier::Quick,
    }
}

fn main() {
    let args: Vec<String> = std::env::args().collect();
    let props = props::all();
    let code = match args.get(1).map(String::as_str) {
        Some("check") => {
            let id = args.get(2).expect("property id");
            let tier = tier_of(args.get(3).map(String::as_str).unwrap_or("quick"));
            match props.iter().find(|p| p.id == id) {
                Some(p) => check::check_main(p, tier),
                None => {
                    eprintln!("unknown property {id}");
                    2
                }
            }
        }
        Some("worker") => {
            let id = args.get(2).expect("property id");
            let tier = tier_of(args.get(3).map(String::as_str).unwrap_or("quick"));
            let deadline: u64 = args.get(4).and_then(|s| s.parse().ok()).unwrap_or(0);
            let p = props.iter().find(|p| p.id == id).expect("known property");
            check::worker_main(p, tier, deadline);
            0
        }
        Some("replay") => check::replay_main(&props, args.get(2).expect("replay file")),
        Some("show") => check::show_main(&props, args.get(2).expect("property id"), tier_of(args.get(3).map(String::as_str).unwrap_or("quick")), args.get(4).map(String::as_str).unwrap_or("")),
        Some("selftest") => selftest::main(),
        Some("conformance") => conformance::main(),
        Some("c18-compare") => c18cmp::main(args.get(2).map(String::as_str).unwrap_or("quick")),
        Some("list") => {
            for p in &props {
                for t in [Tier::Quick, Tier::Thorough] {
                    println!("{} {} cases={}", p.id, t.name(), (p.cases)(t).len());
                }
            }
            0
        }
        _ => {
            eprintln!("usage: mc check <ID> <quick|thorough> | replay <file> | selftest | list");
            2
        }
    };
    std::process::exit(code);
}
