//! A scene with one `Probe` actor (role 0) and N clients running `Op` programs.

use crate::{
    check::{Scene, Trace, Violation},
    ops::{run_client, Handles, Op},
    scenes::{spawn_probe, spawn_probe_on_stream, OwningOrAddr, SpawnCfg, StreamVia},
    vexec::Exec,
    world::{Ask, Note, RoleCfg},
};

#[derive(Clone, Copy, Debug, PartialEq, Eq)]
pub enum HInit {
    Addr,
    Own,
    Snd,
    Cal,
    WAddr,
    WSnd,
    WCal,
}

#[derive(Clone, Debug)]
pub struct ClientSpec {
    pub init: Vec<HInit>,
    pub ops: Vec<Op>,
}

pub const FULL: [HInit; 6] = [HInit::Addr, HInit::Snd, HInit::Cal, HInit::WAddr, HInit::WSnd, HInit::WCal];

#[derive(Clone, Debug, PartialEq, Eq)]
pub enum Attach {
    None,
    /// stream-attached: how it is spawned, items ready at once, closed after them
    Stream { via: StreamVia, prefill: Vec<u32>, close: bool },
}

thread_local! {
    static STREAM_VARIANT: std::cell::Cell<bool> = const { std::cell::Cell::new(false) };
    /// items that are ready on the attached stream from the start (stream variant only)
    static STREAM_ITEMS: std::cell::RefCell<Vec<u32>> = const { std::cell::RefCell::new(Vec::new()) };
}

/// The stream variant with a few items ready on the stream from the start (the stream then stays
/// open and silent): mailbox and stream are ready at the same time, so the loop's tie-break is
/// real and must not cost either side anything.
pub fn with_stream_variant_items<T>(items: Vec<u32>, f: impl FnOnce() -> T) -> T {
    STREAM_ITEMS.with(|s| *s.borrow_mut() = items);
    let r = with_stream_variant(f);
    STREAM_ITEMS.with(|s| s.borrow_mut().clear());
    r
}

thread_local! {
    static STREAM_CLOSES: std::cell::Cell<bool> = const { std::cell::Cell::new(false) };
}

/// The stream variant with a stream that yields these items and then *ends*: the end of the
/// stream is one more way for the actor to end, whatever is in its mailbox at that moment.
pub fn with_stream_variant_closing<T>(items: Vec<u32>, f: impl FnOnce() -> T) -> T {
    STREAM_CLOSES.with(|s| s.set(true));
    let r = with_stream_variant_items(items, f);
    STREAM_CLOSES.with(|s| s.set(false));
    r
}

/// Runs a case generator with the "other event loop" switch on: every `ProgScene` built through
/// [`attach_for`] then spawns its actor attached to a stream that is open but never ready, so the
/// same programs and oracles exercise `create_loop_on_stream` instead of `create_loop`.
pub fn with_stream_variant<T>(f: impl FnOnce() -> T) -> T {
    STREAM_VARIANT.with(|s| s.set(true));
    let r = f();
    STREAM_VARIANT.with(|s| s.set(false));
    r
}

pub fn stream_variant() -> bool {
    STREAM_VARIANT.with(|s| s.get())
}

/// The attachment for a case with this mailbox under the current variant switch.
pub fn attach_for(mailbox: crate::scenes::Mailbox) -> Attach {
    if stream_variant() {
        let via = match mailbox {
            crate::scenes::Mailbox::U => StreamVia::BuildOnStream,
            crate::scenes::Mailbox::B(n) => StreamVia::BoundedOnStream(n),
        };
        Attach::Stream { via, prefill: STREAM_ITEMS.with(|s| s.borrow().clone()), close: STREAM_CLOSES.with(|s| s.get()) }
    } else {
        Attach::None
    }
}

pub fn variant_tag() -> &'static str {
    let v = current_variant();
    if stream_variant() {
        " [stream loop]"
    } else if v.builder_order != 0 {
        match v.builder_order {
            4 => " [builder: timeout(1 tick) and the opposite fail_on_timeout, mailbox, then the real ones]",
            5 => " [builder: timeout(1 tick), overwritten at once by the real one, mailbox]",
            1 => " [builder: fail_on_timeout, timeout, mailbox]",
            2 => " [builder: mailbox, timeout, fail_on_timeout]",
            _ => " [builder: mailbox, fail_on_timeout, timeout]",
        }
    } else if v.generous_timeout && v.recreate {
        " [timeout 50, recreate]"
    } else if v.generous_timeout {
        " [timeout 50]"
    } else if v.recreate {
        " [recreate]"
    } else {
        ""
    }
}

/// A configuration that must not change anything the property speaks about, applied on top of
/// the case's own spawn configuration.
#[derive(Clone, Copy, Debug, Default, PartialEq, Eq)]
pub struct Variant {
    /// configure a handler timeout that no handler comes near (50 ticks, carry on)
    pub generous_timeout: bool,
    /// use recreate-from-default where the case would use the default strategy
    pub recreate: bool,
    /// order in which the builder's timeout options are given (see `spawn_probe_ordered`)
    pub builder_order: u8,
    /// where no client asks for the owner, the OwningAddr the spawn returned is *dropped* (after
    /// the clients' addresses have been taken from it) instead of detached
    pub owner_dropped: bool,
}

thread_local! {
    static VARIANT: std::cell::Cell<Variant> = const { std::cell::Cell::new(Variant { generous_timeout: false, recreate: false, builder_order: 0, owner_dropped: false }) };
}

/// Runs a case generator with a neutral-configuration variant switched on (see [`Variant`]).
pub fn with_variant<T>(v: Variant, f: impl FnOnce() -> T) -> T {
    VARIANT.with(|c| c.set(v));
    let r = f();
    VARIANT.with(|c| c.set(Variant::default()));
    r
}

pub fn current_variant() -> Variant {
    VARIANT.with(|c| c.get())
}

pub struct ProgScene<X> {
    pub variant: Variant,
    pub spawn: SpawnCfg,
    pub attach: Attach,
    pub roles: Vec<RoleCfg>,
    pub clients: Vec<ClientSpec>,
    /// property-specific parameters available to the oracle
    pub extra: X,
    pub oracle: fn(&ProgScene<X>, &Trace) -> Vec<Violation>,
}

impl<X> Scene for ProgScene<X> {
    fn roles(&self) -> Vec<RoleCfg> {
        self.roles.clone()
    }

    /// registry hygiene for scenes whose actor uses the broker
    fn pre(&self) {
        use futures::FutureExt as _;
        let _ = hannibal::Addr::<hannibal::Broker<crate::world::T1>>::unregister().now_or_never();
        let _ = hannibal::Addr::<hannibal::Broker<crate::world::T2>>::unregister().now_or_never();
    }

    fn setup(&self, exec: &Exec) {
        crate::scenes::STREAM.with(|s| *s.borrow_mut() = None);
        if self.variant.recreate {
            crate::scenes::set_alt_conv(true);
        }
        let (mut owning, base) = match &self.attach {
            Attach::None => {
                let mut spawn = self.spawn;
                if self.variant.generous_timeout && spawn.timeout.is_none() {
                    spawn.timeout = Some((50, false));
                }
                if self.variant.recreate && spawn.strat == crate::scenes::Strat::Default {
                    spawn.strat = crate::scenes::Strat::Recreate;
                }
                // nobody in the scene asks for the owner: use the builder's detached terminal
                if self.clients.iter().all(|cs| !cs.init.contains(&HInit::Own)) {
                    (None, crate::scenes::spawn_probe_detached(0, spawn, self.variant.builder_order))
                } else {
                    let o = crate::scenes::spawn_probe_ordered(0, spawn, self.variant.builder_order);
                    let b = o.to_addr();
                    (Some(o), b)
                }
            }
            Attach::Stream { via, prefill, close } => match spawn_probe_on_stream(0, *via, prefill, *close, self.spawn.timeout) {
                OwningOrAddr::Own(o) => {
                    let b = o.to_addr();
                    (Some(o), b)
                }
                OwningOrAddr::Addr(a) => (None, a),
            },
        };
        let mut tables = vec![];
        for cs in &self.clients {
            let mut h = Handles::default();
            for init in &cs.init {
                match init {
                    HInit::Addr => h.addr.push(Some(base.clone())),
                    HInit::Own => h.own.push(owning.take()),
                    HInit::Snd => h.snd.push(Some(crate::scenes::to_sender(&base))),
                    HInit::Cal => h.cal.push(Some(base.caller::<Ask>())),
                    HInit::WAddr => h.waddr.push(Some(crate::scenes::to_weak_addr(&base))),
                    HInit::WSnd => h.wsnd.push(Some(crate::scenes::to_weak_sender(&base))),
                    HInit::WCal => h.wcal.push(Some(crate::scenes::to_weak_caller(&base))),
                }
            }
            tables.push(h);
        }
        if let Some(o) = owning.take() {
            if self.variant.owner_dropped {
                drop(o);
            } else {
                drop(o.detach());
            }
        }
        drop(base);
        for (c, (cs, h)) in self.clients.iter().zip(tables).enumerate() {
            exec.spawn_client(c as u8, run_client(c as u8, h, cs.ops.clone()));
        }
    }

    fn check(&self, t: &Trace) -> Vec<Violation> {
        (self.oracle)(self, t)
    }
}
