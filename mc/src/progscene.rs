//! A scene with one `Probe` actor (role 0) and N clients running `Op` programs.

use crate::{
    check::{Scene, Trace, Violation},
    ops::{run_client, Handles, Op},
    scenes::{spawn_probe, spawn_probe_on_stream, OwningOrAddr, SpawnCfg, StreamVia},
    vexec::Exec,
    world::{Ask, Note, RoleCfg},
};

#[derive(Clone, Copy, Debug, PartialEq, Eq)]
pub enum HInit {
    Addr,
    Own,
    Snd,
    Cal,
    WAddr,
    WSnd,
    WCal,
}

#[derive(Clone, Debug)]
pub struct ClientSpec {
    pub init: Vec<HInit>,
    pub ops: Vec<Op>,
}

pub const FULL: [HInit; 6] = [HInit::Addr, HInit::Snd, HInit::Cal, HInit::WAddr, HInit::WSnd, HInit::WCal];

#[derive(Clone, Debug, PartialEq, Eq)]
pub enum Attach {
    None,
    /// stream-attached: how it is spawned, items ready at once, closed after them
    Stream { via: StreamVia, prefill: Vec<u32>, close: bool },
}

thread_local! {
    static STREAM_VARIANT: std::cell::Cell<bool> = const { std::cell::Cell::new(false) };
}

/// Runs a case generator with the "other event loop" switch on: every `ProgScene` built through
/// [`attach_for`] then spawns its actor attached to a stream that is open but never ready, so the
/// same programs and oracles exercise `create_loop_on_stream` instead of `create_loop`.
pub fn with_stream_variant<T>(f: impl FnOnce() -> T) -> T {
    STREAM_VARIANT.with(|s| s.set(true));
    let r = f();
    STREAM_VARIANT.with(|s| s.set(false));
    r
}

pub fn stream_variant() -> bool {
    STREAM_VARIANT.with(|s| s.get())
}

/// The attachment for a case with this mailbox under the current variant switch.
pub fn attach_for(mailbox: crate::scenes::Mailbox) -> Attach {
    if stream_variant() {
        let via = match mailbox {
            crate::scenes::Mailbox::U => StreamVia::BuildOnStream,
            crate::scenes::Mailbox::B(n) => StreamVia::BoundedOnStream(n),
        };
        Attach::Stream { via, prefill: vec![], close: false }
    } else {
        Attach::None
    }
}

pub fn variant_tag() -> &'static str {
    if stream_variant() {
        " [stream loop]"
    } else {
        ""
    }
}

pub struct ProgScene<X> {
    pub spawn: SpawnCfg,
    pub attach: Attach,
    pub roles: Vec<RoleCfg>,
    pub clients: Vec<ClientSpec>,
    /// property-specific parameters available to the oracle
    pub extra: X,
    pub oracle: fn(&ProgScene<X>, &Trace) -> Vec<Violation>,
}

impl<X> Scene for ProgScene<X> {
    fn roles(&self) -> Vec<RoleCfg> {
        self.roles.clone()
    }

    fn setup(&self, exec: &Exec) {
        crate::scenes::STREAM.with(|s| *s.borrow_mut() = None);
        let (mut owning, base) = match &self.attach {
            Attach::None => {
                let o = spawn_probe(0, self.spawn);
                let b = o.to_addr();
                (Some(o), b)
            }
            Attach::Stream { via, prefill, close } => match spawn_probe_on_stream(0, *via, prefill, *close) {
                OwningOrAddr::Own(o) => {
                    let b = o.to_addr();
                    (Some(o), b)
                }
                OwningOrAddr::Addr(a) => (None, a),
            },
        };
        let mut tables = vec![];
        for cs in &self.clients {
            let mut h = Handles::default();
            for init in &cs.init {
                match init {
                    HInit::Addr => h.addr.push(Some(base.clone())),
                    HInit::Own => h.own.push(owning.take()),
                    HInit::Snd => h.snd.push(Some(base.sender::<Note>())),
                    HInit::Cal => h.cal.push(Some(base.caller::<Ask>())),
                    HInit::WAddr => h.waddr.push(Some(base.downgrade())),
                    HInit::WSnd => h.wsnd.push(Some(base.weak_sender::<Note>())),
                    HInit::WCal => h.wcal.push(Some(base.weak_caller::<Ask>())),
                }
            }
            tables.push(h);
        }
        if let Some(o) = owning.take() {
            drop(o.detach());
        }
        drop(base);
        for (c, (cs, h)) in self.clients.iter().zip(tables).enumerate() {
            exec.spawn_client(c as u8, run_client(c as u8, h, cs.ops.clone()));
        }
    }

    fn check(&self, t: &Trace) -> Vec<Violation> {
        (self.oracle)(self, t)
    }
}
