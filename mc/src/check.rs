//! Check framework: cases, scenes, oracles' violations, worker processes, evidence, replay.

use std::{
    collections::{BTreeMap, HashSet},
    io::{BufRead, BufReader, Write},
    process::{Command, Stdio},
    rc::Rc,
    sync::{
        atomic::{AtomicUsize, Ordering},
        Arc, Mutex,
    },
    time::{Duration, Instant},
};

use serde_json::{json, Value};

use crate::{
    vexec::{self, ChoiceRec, Control, Exec, ExecCfg, ExecResult, ExploreError},
    world::{self, Entry, Ev, RoleCfg},
};

#[derive(Clone, Copy, Debug, PartialEq, Eq)]
pub enum Tier {
    Quick,
    Thorough,
}

impl Tier {
    pub fn name(self) -> &'static str {
        match self {
            Tier::Quick => "quick",
            Tier::Thorough => "thorough",
        }
    }
}

#[derive(Clone, Debug)]
pub struct Violation {
    pub clause: &'static str,
    /// clause + the distinguishing feature of the failing case (known-findings key)
    pub key: String,
    pub detail: String,
}

pub struct Trace<'a> {
    pub log: &'a [Entry],
    pub res: &'a ExecResult,
}

pub trait Scene {
    fn roles(&self) -> Vec<RoleCfg>;
    /// global-state hygiene, run before the backend is installed
    fn pre(&self) {}
    /// spawn actors and client tasks (backend installed)
    fn setup(&self, exec: &Exec);
    fn check(&self, t: &Trace) -> Vec<Violation>;
    /// optional accumulation across all executions of the case (set-valued oracles)
    fn observe(&self, _t: &Trace) {}
    /// called once after the case has been explored completely
    fn finish(&self, _complete: bool) -> Vec<Violation> {
        vec![]
    }
    /// per-case data handed to the parent (e.g. outcome sets for cross-build comparison)
    fn export(&self) -> Option<Value> {
        None
    }
}

/// A scene re-run under a neutral ambient configuration (see [`crate::scenes::Ambient`]).
pub struct Amb {
    pub inner: Box<dyn Scene>,
    pub amb: crate::scenes::Ambient,
}

impl Scene for Amb {
    fn roles(&self) -> Vec<RoleCfg> {
        self.inner.roles()
    }
    fn pre(&self) {
        self.inner.pre();
        crate::scenes::set_ambient(self.amb);
        if self.amb.recreate {
            crate::scenes::set_alt_conv(true);
        }
    }
    fn setup(&self, exec: &Exec) {
        self.inner.setup(exec)
    }
    fn check(&self, t: &Trace) -> Vec<Violation> {
        self.inner.check(t)
    }
    fn observe(&self, t: &Trace) {
        self.inner.observe(t)
    }
    fn finish(&self, complete: bool) -> Vec<Violation> {
        self.inner.finish(complete)
    }
    fn export(&self) -> Option<Value> {
        self.inner.export()
    }
}

/// Wraps every case of a family in an ambient configuration.
pub fn with_ambient(cases: Vec<Case>, amb: crate::scenes::Ambient) -> Vec<Case> {
    let mut tag = vec![];
    if amb.generous_timeout {
        tag.push("timeout 1000");
    }
    if amb.recreate {
        tag.push("recreate");
    }
    if amb.roomy {
        tag.push("bounded 16");
    }
    if amb.stream {
        tag.push("stream loop");
    }
    let tag = format!(" [ambient: {}]", tag.join(", "));
    cases
        .into_iter()
        .map(|c| {
            let mut exec = c.exec;
            if amb.stream || amb.generous_timeout {
                // the attached stream / the 1000-tick delay is never ready, so the order in
                // which select! polls its branches cannot matter (families that configure
                // timeouts or streams of their own keep those cases out of these passes)
                exec.select_choice = false;
            }
            Case { desc: format!("{}{tag}", c.desc), exec, bound: c.bound, scene: Box::new(Amb { inner: c.scene, amb }) }
        })
        .collect()
}

/// A family plus its ambient re-runs: (generous timeout + roomy bounded mailbox), (recreate),
/// and - for the cases `stream_ok` admits (those that never restart an actor) - the stream loop.
/// The filters see the case description; `generous_ok` must reject cases that configure a
/// timeout themselves, `recreate_ok` those whose oracle follows an instance across a restart.
pub fn widen(base: &dyn Fn() -> Vec<Case>, generous_ok: &dyn Fn(&str) -> bool, recreate_ok: &dyn Fn(&str) -> bool, stream_ok: Option<&dyn Fn(&str) -> bool>) -> Vec<Case> {
    use crate::scenes::Ambient;
    let mut v = base();
    v.extend(with_ambient(base().into_iter().filter(|c| generous_ok(&c.desc)).collect(), Ambient { generous_timeout: true, roomy: true, ..Default::default() }));
    v.extend(with_ambient(base().into_iter().filter(|c| recreate_ok(&c.desc)).collect(), Ambient { recreate: true, ..Default::default() }));
    if let Some(ok) = stream_ok {
        v.extend(with_ambient(base().into_iter().filter(|c| ok(&c.desc)).collect(), Ambient { stream: true, ..Default::default() }));
    }
    v
}

thread_local! {
    static OBLIGATIONS: std::cell::RefCell<BTreeMap<&'static str, u64>> = const { std::cell::RefCell::new(BTreeMap::new()) };
}

/// Records that a clause was *under obligation* in the execution being checked (its antecedent
/// held, so the clause really said something). Summed per property in the evidence; a clause
/// that is never under obligation in a whole run is reported as vacuous.
pub fn oblige(clause: &'static str) {
    OBLIGATIONS.with(|o| *o.borrow_mut().entry(clause).or_insert(0) += 1);
}

fn take_obligations() -> BTreeMap<&'static str, u64> {
    OBLIGATIONS.with(|o| std::mem::take(&mut *o.borrow_mut()))
}

pub struct Case {
    pub desc: String,
    pub exec: ExecCfg,
    /// deviation bound (None = all schedules)
    pub bound: Option<u32>,
    pub scene: Box<dyn Scene>,
}

pub struct Property {
    pub id: &'static str,
    pub cases: fn(Tier) -> Vec<Case>,
    pub assumptions: &'static [&'static str],
    /// clauses whose antecedent must hold somewhere in every run (vacuity guard)
    pub clauses: &'static [&'static str],
    /// re-execute the first schedules of every case completely and compare the logs (besides
    /// the hash comparison at every replayed choice point, which is always on)
    pub full_rerun_check: bool,
}

// ---------------------------------------------------------------- running one execution

pub fn run_case_once(case: &Case, prefix: &[ChoiceRec]) -> (ExecResult, Vec<Entry>, u64) {
    crate::scenes::set_ambient(Default::default());
    crate::ops::reset_post();
    crate::scenes::set_alt_conv(false);
    case.scene.pre();
    world::reset(case.scene.roles());
    let on_event: Rc<dyn Fn(vexec::ExecEvent, u64, u64)> = Rc::new(|ev, _, _| world::log_exec(ev));
    let res = vexec::run_one(
        &case.exec,
        prefix,
        Some(on_event),
        &|e| case.scene.setup(e),
        &world::begin_teardown,
    );
    let lh = world::loghash();
    let log = world::take_log();
    (res, log, lh)
}

/// Runs the case once, unhooked, on a REAL tokio current-thread runtime (paused clock, which
/// tokio advances only when every task is idle - the discrete-event semantics of the virtual
/// clock). No backend is installed, so the shims forward to tokio; only the harness' own
/// `Delay` provider is pointed at tokio's clock so that handler timeouts are on it too.
#[cfg(feature = "rt-tokio")]
pub fn run_case_real(case: &Case) -> Vec<Entry> {
    use std::future::Future;
    crate::scenes::set_ambient(Default::default());
    crate::ops::reset_post();
    crate::scenes::set_alt_conv(false);
    case.scene.pre();
    world::reset(case.scene.roles());
    world::set_real_mode(true);
    futures_timer::verif_set_delay_provider(Some(Box::new(|d| Box::pin(tokio::time::sleep(d)) as std::pin::Pin<Box<dyn Future<Output = ()> + Send>>)));
    let rt = tokio::runtime::Builder::new_current_thread().enable_all().start_paused(true).build().expect("tokio runtime");
    let local = tokio::task::LocalSet::new();
    let horizon = case.exec.horizon.min(100_000);
    local.block_on(&rt, async {
        let start = tokio::time::Instant::now();
        let (exec, clients) = Exec::collector();
        case.scene.setup(&exec);
        let futs: Vec<_> = clients.borrow_mut().drain(..).collect();
        for (_, f) in futs {
            tokio::task::spawn_local(f);
        }
        // the paused clock only advances when everything is idle, so sleeping to the horizon
        // lets the scene run exactly as far as the virtual executor lets it
        tokio::time::sleep_until(start + Duration::from_millis(horizon)).await;
        // tasks woken at the horizon instant still run to quiescence
        for _ in 0..200 {
            tokio::task::yield_now().await;
        }
    });
    world::begin_teardown();
    drop(local);
    drop(rt);
    futures_timer::verif_set_delay_provider(None);
    world::set_real_mode(false);
    world::take_log()
}

/// Hash of what an execution *did* as seen by users: callback events in order plus the result
/// of every client operation (not the interleaving of operation begin/end stamps).
pub fn outcome_hash(log: &[Entry]) -> u64 {
    let mut h: u64 = 0x0u64;
    let mut ops: u64 = 0;
    for e in log {
        match e.ev {
            Ev::Begin { .. } | Ev::X(_) => {}
            Ev::End { c, i, r } => {
                ops = ops.wrapping_add(world::hash_of(&(c, i, r)).wrapping_mul(0x9E37_79B9_7F4A_7C15));
            }
            ev => h = (h.rotate_left(5) ^ world::hash_of(&ev)).wrapping_mul(0x517c_c1b7_2722_0a95),
        }
    }
    h ^ ops
}

pub fn fmt_entry(e: &Entry) -> String {
    format!("[s{} t{} k{}] {:?}", e.step, e.time, if e.task == u32::MAX { -1 } else { e.task as i64 }, e.ev)
}

// ---------------------------------------------------------------- worker

struct FoundViolation {
    v: Violation,
    choices: Vec<(u32, u32)>,
    log: Vec<String>,
}

const MAX_OUTCOMES: usize = 2_000_000;

fn explore_case(idx: usize, case: &Case, deadline: Option<Instant>, want_sample: bool, split: Option<vexec::Split>, abort_after: Option<u64>, reruns: u64) -> Value {
    let t0 = Instant::now();
    let _ = take_obligations();
    let mut outcomes: HashSet<u64> = HashSet::new();
    let outcomes_only = std::env::var_os("VERIF_OUTCOMES_ONLY").is_some();
    let mut found: BTreeMap<String, (u64, FoundViolation)> = BTreeMap::new();
    let mut sample: Option<Value> = None;
    let mut last_log: Vec<Entry> = Vec::new();
    let mut end_quiescent = 0u64;
    let mut end_horizon = 0u64;

    let log_cell: std::cell::RefCell<Vec<Entry>> = std::cell::RefCell::new(Vec::new());
    let mut run = |prefix: &[ChoiceRec]| {
        let (res, log, lh) = run_case_once(case, prefix);
        *log_cell.borrow_mut() = log;
        (res, lh)
    };
    let mut visit = |res: &ExecResult| {
        let log = log_cell.borrow();
        match res.end {
            vexec::EndReason::Quiescent => end_quiescent += 1,
            vexec::EndReason::Horizon | vexec::EndReason::Spin => end_horizon += 1,
        }
        if outcomes.len() < MAX_OUTCOMES {
            outcomes.insert(outcome_hash(&log));
        }
        let trace = Trace { log: &log, res };
        case.scene.observe(&trace);
        // (VERIF_OUTCOMES_ONLY: the family is explored for its outcome sets alone - C18 compares
        // them across the runtime builds; the property's own oracle is not this run's business)
        let verdicts = if outcomes_only { vec![] } else { case.scene.check(&trace) };
        for v in verdicts {
            let e = found.entry(v.key.clone()).or_insert_with(|| {
                (
                    0,
                    FoundViolation {
                        v: v.clone(),
                        choices: res.choices.iter().map(|c| (c.chosen, c.n)).collect(),
                        log: log.iter().map(fmt_entry).collect(),
                    },
                )
            });
            e.0 += 1;
        }
        if want_sample && sample.is_none() {
            sample = Some(json!({
                "case": case.desc,
                "choices": res.choices.iter().map(|c| c.chosen).collect::<Vec<_>>(),
                "log": log.iter().map(fmt_entry).collect::<Vec<_>>(),
            }));
        }
        if last_log.is_empty() {
            last_log = log.clone();
        }
        Control::Continue
    };
    // a single case may not eat the whole budget: beyond the cap it is reported as not completed
    let case_cap: u64 = std::env::var("VERIF_CASE_CAP").ok().and_then(|s| s.parse().ok()).unwrap_or(40_000_000);
    let cap = Some(match split {
        Some(sp) => case_cap / sp.parts as u64,
        None => case_cap,
    });
    let r = vexec::explore(case.bound, deadline, reruns, split, abort_after, cap, &mut run, &mut visit);
    let mut out = json!({"idx": idx, "desc": case.desc, "wall_s": t0.elapsed().as_secs_f64()});
    match r {
        Ok(stats) if stats.aborted_too_big => {
            out["too_big"] = json!(true);
            out["schedules"] = json!(stats.schedules);
        }
        Ok(stats) => {
            let complete = !stats.wall_hit && !stats.case_capped;
            for v in if outcomes_only { vec![] } else { case.scene.finish(complete) } {
                found.entry(v.key.clone()).or_insert_with(|| {
                    (
                        1,
                        FoundViolation {
                            v,
                            choices: vec![],
                            log: vec!["(set-valued clause over all executions of the case)".into()],
                        },
                    )
                });
            }
            // cross-check against a real tokio runtime: its one schedule is one of the explored
            // interleavings, so its outcome must be among the explored outcomes
            #[cfg(feature = "rt-tokio")]
            if complete && !stats.pruned && split.is_none() && outcomes.len() < MAX_OUTCOMES && case.exec.cancel.is_none() && case.exec.max_early_fires == 0 && case.exec.real_crosscheck && std::env::var_os("VERIF_NO_REAL").is_none() {
                let rlog = run_case_real(case);
                let h = outcome_hash(&rlog);
                out["real_checked"] = json!(1);
                if outcomes.contains(&h) {
                    out["real_ok"] = json!(1);
                } else {
                    out["real_ok"] = json!(0);
                    out["real_mismatch"] = json!({"case": case.desc, "log": rlog.iter().map(fmt_entry).collect::<Vec<_>>()});
                }
            }
            out["schedules"] = json!(stats.schedules);
            out["states"] = json!(stats.states);
            out["transitions"] = json!(stats.transitions);
            out["replayed_steps"] = json!(stats.replayed_steps);
            out["max_depth"] = json!(stats.max_depth);
            out["pruned"] = json!(stats.pruned);
            out["wall_hit"] = json!(stats.wall_hit);
            out["case_capped"] = json!(stats.case_capped);
            out["reruns"] = json!(stats.determinism_reruns);
            out["structure_runs"] = json!(stats.structure_runs);
            if let Some(sp) = split {
                out["part"] = json!(sp.part);
                out["parts"] = json!(sp.parts);
            }
            out["outcomes"] = json!(outcomes.len());
            out["end_quiescent"] = json!(end_quiescent);
            out["end_horizon"] = json!(end_horizon);
        }
        Err(ExploreError::Nondeterminism(d)) => {
            out["error"] = json!(format!("UNCONTROLLED-NONDETERMINISM: {d}"));
        }
        Err(ExploreError::Capped(c)) => {
            out["error"] = json!(format!("execution cap hit: {c}"));
        }
    }
    out["violations"] = Value::Array(
        found
            .into_iter()
            .map(|(key, (count, f))| {
                json!({
                    "key": key,
                    "clause": f.v.clause,
                    "detail": f.v.detail,
                    "count": count,
                    "choices": f.choices,
                    "log": f.log,
                })
            })
            .collect(),
    );
    if let Some(s) = sample {
        out["sample"] = s;
    }
    if let Some(x) = case.scene.export() {
        out["export"] = x;
    } else if std::env::var_os("VERIF_EXPORT_FILE").is_some() && outcomes.len() <= 4096 {
        // any family can be compared across builds: the set of outcome hashes of the case
        let mut hs: Vec<u64> = outcomes.iter().copied().collect();
        hs.sort_unstable();
        out["export"] = Value::Array(hs.into_iter().map(|h| json!([format!("{h:016x}"), ""])).collect());
    }
    out["obligations"] = json!(take_obligations());
    out
}

pub fn quiet_panics() {
    std::panic::set_hook(Box::new(|info| {
        if info.payload().downcast_ref::<world::Injected>().is_some() {
            return;
        }
        let msg = info
            .payload()
            .downcast_ref::<&str>()
            .map(|s| s.to_string())
            .or_else(|| info.payload().downcast_ref::<String>().cloned())
            .unwrap_or_default();
        // runtime-shim panics that model the real runtimes' behaviour
        if msg.contains("Task polled after completion") || msg.contains("restart message in stream-handling actor") {
            return;
        }
        if std::env::var_os("VERIF_SHOW_PANICS").is_some() {
            eprintln!("[panic] {msg} at {:?}", info.location());
        }
    }));
}

/// Worker: reads case indices from stdin, writes one JSON line per case.
pub fn worker_main(prop: &Property, tier: Tier, deadline_unix_ms: u64) {
    quiet_panics();
    let (cases, _) = tier_cases(prop, tier);
    // a case that turns out to have more executions than this is given back to be split
    let split_threshold: u64 = std::env::var("VERIF_SPLIT_AT").ok().and_then(|s| s.parse().ok()).unwrap_or(150_000);
    let stdin = std::io::stdin();
    let stdout = std::io::stdout();
    let deadline = if deadline_unix_ms == 0 {
        None
    } else {
        let now_ms = std::time::SystemTime::now()
            .duration_since(std::time::UNIX_EPOCH)
            .unwrap()
            .as_millis() as u64;
        Some(Instant::now() + Duration::from_millis(deadline_unix_ms.saturating_sub(now_ms)))
    };
    for line in stdin.lock().lines() {
        let Ok(line) = line else { break };
        let f: Vec<u64> = line.split_whitespace().filter_map(|x| x.parse().ok()).collect();
        let Some(&idx) = f.first() else { break };
        let idx = idx as usize;
        let split = if f.len() >= 4 { Some(vexec::Split { part: f[1] as u32, parts: f[2] as u32, depth: f[3] as usize }) } else { None };
        let abort_after = if split.is_none() { Some(split_threshold) } else { None };
        let out = if deadline.is_some_and(|d| Instant::now() >= d) {
            json!({"idx": idx, "desc": cases[idx].desc, "skipped": true, "violations": []})
        } else {
            explore_case(idx, &cases[idx], deadline, (idx % 97 == 0 || idx < 3) && split.is_none_or(|s| s.part == 0), split, abort_after, if prop.full_rerun_check { 2 } else { 0 })
        };
        let mut so = stdout.lock();
        writeln!(so, "{}", out).unwrap();
        so.flush().unwrap();
    }
}

// ---------------------------------------------------------------- parent

fn known_findings() -> Vec<Value> {
    let p = "/verif/known_findings.json";
    match std::fs::read_to_string(p) {
        Ok(s) => serde_json::from_str::<Value>(&s)
            .ok()
            .and_then(|v| v.as_array().cloned())
            .unwrap_or_default(),
        Err(_) => vec![],
    }
}

fn shuffle_indices(n: usize, seed: u64) -> Vec<usize> {
    let mut v: Vec<usize> = (0..n).collect();
    if seed == 0 {
        return v;
    }
    let mut s = seed.wrapping_mul(0x9E37_79B9_7F4A_7C15) | 1;
    for i in (1..n).rev() {
        s ^= s >> 12;
        s ^= s << 25;
        s ^= s >> 27;
        let j = (s.wrapping_mul(0x2545_f491_4f6c_dd1d) % (i as u64 + 1)) as usize;
        v.swap(i, j);
    }
    v
}

/// The case list of a tier. The thorough tier is the thorough family *followed by* the quick
/// tier's cases (marked in their description); `check_main` runs that tail first, so a thorough
/// run covers at least what a quick run covers before it spends its budget on depth.
pub fn tier_cases(prop: &Property, tier: Tier) -> (Vec<Case>, usize) {
    let mut v = (prop.cases)(tier);
    let own = v.len();
    if tier == Tier::Thorough {
        v.extend((prop.cases)(Tier::Quick).into_iter().map(|mut c| {
            c.desc = format!("[quick-tier case] {}", c.desc);
            c
        }));
    }
    (v, own)
}

/// The order in which a tier's own cases are dealt to the workers. Thorough: a seeded shuffle.
/// Quick: from both ends of the list towards its middle (last, first, last but one, second, ...):
/// a quick run is meant to finish, but when a loaded machine makes it hit its wall budget the
/// cases it loses are then the ones in the middle of the bulk families - not the small special
/// scenes, which the generators append at the end (a capped run says what it skipped either way).
fn deal_order(n: usize, seed: u64, tier: Tier) -> Vec<usize> {
    if tier == Tier::Thorough || seed != 0 {
        return shuffle_indices(n, seed);
    }
    let mut v = Vec::with_capacity(n);
    let (mut lo, mut hi) = (0usize, n);
    while lo < hi {
        hi -= 1;
        v.push(hi);
        if lo < hi {
            v.push(lo);
            lo += 1;
        }
    }
    v
}

pub fn check_main(prop: &Property, tier: Tier) -> i32 {
    let t0 = Instant::now();
    let seed: u64 = std::env::var("VERIF_SEED").ok().and_then(|s| s.parse().ok()).unwrap_or(0);
    let wall_s: u64 = std::env::var("VERIF_WALL_S")
        .ok()
        .and_then(|s| s.parse().ok())
        .unwrap_or(match tier {
            Tier::Quick => 55,
            Tier::Thorough => 1200,
        });
    let nworkers: usize = std::env::var("VERIF_WORKERS")
        .ok()
        .and_then(|s| s.parse().ok())
        .unwrap_or_else(|| std::thread::available_parallelism().map(|n| n.get()).unwrap_or(4));
    let (cases, own_cases) = tier_cases(prop, tier);
    let ncases = cases.len();
    let descs: Vec<String> = cases.iter().map(|c| c.desc.clone()).collect();
    let bounds: Vec<Option<u32>> = cases.iter().map(|c| c.bound).collect();
    drop(cases);
    let deal_seed = if seed == 0 && tier == Tier::Thorough { 0x5eed } else { seed };
    let queue: Arc<Mutex<std::collections::VecDeque<String>>> =
        Arc::new(Mutex::new((own_cases..ncases).chain(deal_order(own_cases, deal_seed, tier)).map(|i| i.to_string()).collect()));
    let in_flight = Arc::new(AtomicUsize::new(0));
    const PARTS: u32 = 32;
    const SPLIT_DEPTH: usize = 6;
    let results: Arc<Mutex<Vec<Value>>> = Arc::new(Mutex::new(Vec::new()));
    let machinery: Arc<Mutex<Vec<String>>> = Arc::new(Mutex::new(Vec::new()));
    let deadline_ms = std::time::SystemTime::now()
        .duration_since(std::time::UNIX_EPOCH)
        .unwrap()
        .as_millis() as u64
        + wall_s * 1000;
    let exe = std::env::current_exe().expect("current exe");
    let mut threads = vec![];
    for _w in 0..nworkers.min(ncases.max(1)) {
        let (queue, in_flight, results, machinery) = (queue.clone(), in_flight.clone(), results.clone(), machinery.clone());
        let exe = exe.clone();
        let id = prop.id.to_string();
        threads.push(std::thread::spawn(move || {
            let mut child = match Command::new(&exe)
                .args(["worker", &id, tier.name(), &deadline_ms.to_string()])
                .stdin(Stdio::piped())
                .stdout(Stdio::piped())
                .stderr(if std::env::var_os("VERIF_SHOW_PANICS").is_some() { Stdio::inherit() } else { Stdio::null() })
                .spawn()
            {
                Ok(c) => c,
                Err(e) => {
                    machinery.lock().unwrap().push(format!("cannot spawn worker: {e}"));
                    return;
                }
            };
            let mut cin = child.stdin.take().unwrap();
            let mut cout = BufReader::new(child.stdout.take().unwrap());
            loop {
                // take a task; when the queue is empty other workers may still split a case
                let task = {
                    let mut q = queue.lock().unwrap();
                    let t = q.pop_front();
                    if t.is_some() {
                        in_flight.fetch_add(1, Ordering::SeqCst);
                    }
                    t
                };
                let Some(task) = task else {
                    if in_flight.load(Ordering::SeqCst) == 0 {
                        break;
                    }
                    std::thread::sleep(Duration::from_millis(5));
                    continue;
                };
                if writeln!(cin, "{task}").is_err() {
                    machinery.lock().unwrap().push(format!("worker died before task {task}"));
                    in_flight.fetch_sub(1, Ordering::SeqCst);
                    break;
                }
                let _ = cin.flush();
                let mut line = String::new();
                match cout.read_line(&mut line) {
                    Ok(n) if n > 0 => match serde_json::from_str::<Value>(&line) {
                        Ok(v) => {
                            if v["too_big"].as_bool().unwrap_or(false) {
                                // give the case back as PARTS shares of its choice tree
                                let idx = v["idx"].as_u64().unwrap_or(0);
                                let mut q = queue.lock().unwrap();
                                for part in (0..PARTS).rev() {
                                    q.push_front(format!("{idx} {part} {PARTS} {SPLIT_DEPTH}"));
                                }
                            } else {
                                results.lock().unwrap().push(v)
                            }
                        }
                        Err(e) => machinery.lock().unwrap().push(format!("bad worker output for task {task}: {e}")),
                    },
                    _ => {
                        machinery.lock().unwrap().push(format!("worker died in task {task}"));
                        in_flight.fetch_sub(1, Ordering::SeqCst);
                        break;
                    }
                }
                in_flight.fetch_sub(1, Ordering::SeqCst);
            }
            drop(cin);
            let _ = child.wait();
        }));
    }
    for t in threads {
        let _ = t.join();
    }
    let raw = std::mem::take(&mut *results.lock().unwrap());
    let mut machinery = std::mem::take(&mut *machinery.lock().unwrap());
    // merge the shares of split cases into one record per case
    let mut by_idx: BTreeMap<u64, Value> = BTreeMap::new();
    let mut split_cases = 0u64;
    for r in raw {
        let idx = r["idx"].as_u64().unwrap_or(0);
        match by_idx.get_mut(&idx) {
            None => {
                if r.get("part").is_some() {
                    split_cases += 1;
                }
                by_idx.insert(idx, r);
            }
            Some(acc) => {
                for k in ["schedules", "states", "transitions", "replayed_steps", "outcomes", "reruns", "end_quiescent", "end_horizon", "structure_runs", "real_checked", "real_ok"] {
                    acc[k] = json!(acc[k].as_u64().unwrap_or(0) + r[k].as_u64().unwrap_or(0));
                }
                acc["max_depth"] = json!(acc["max_depth"].as_u64().unwrap_or(0).max(r["max_depth"].as_u64().unwrap_or(0)));
                acc["wall_s"] = json!(acc["wall_s"].as_f64().unwrap_or(0.0) + r["wall_s"].as_f64().unwrap_or(0.0));
                for k in ["pruned", "wall_hit", "case_capped"] {
                    acc[k] = json!(acc[k].as_bool().unwrap_or(false) || r[k].as_bool().unwrap_or(false));
                }
                if r.get("skipped").is_some() {
                    acc["wall_hit"] = json!(true);
                }
                if let Some(e) = r.get("error") {
                    acc["error"] = e.clone();
                }
                if let Some(ob) = r.get("obligations").and_then(Value::as_object) {
                    for (k, n) in ob {
                        let cur = acc["obligations"][k].as_u64().unwrap_or(0);
                        acc["obligations"][k] = json!(cur + n.as_u64().unwrap_or(0));
                    }
                }
                if acc.get("sample").is_none() {
                    if let Some(smp) = r.get("sample") {
                        acc["sample"] = smp.clone();
                    }
                }
                let mut vs = acc["violations"].as_array().cloned().unwrap_or_default();
                for v in r["violations"].as_array().into_iter().flatten() {
                    if let Some(e) = vs.iter_mut().find(|e| e["key"] == v["key"]) {
                        e["count"] = json!(e["count"].as_u64().unwrap_or(0) + v["count"].as_u64().unwrap_or(0));
                    } else {
                        vs.push(v.clone());
                    }
                }
                acc["violations"] = Value::Array(vs);
                if let (Some(a), Some(b)) = (acc.get("export").and_then(Value::as_array).cloned(), r.get("export").and_then(Value::as_array)) {
                    let mut a = a;
                    for x in b {
                        if !a.iter().any(|y| y[0] == x[0]) {
                            a.push(x.clone());
                        }
                    }
                    acc["export"] = Value::Array(a);
                }
            }
        }
    }
    let results: Vec<Value> = by_idx.into_values().collect();

    // aggregate
    let g = |v: &Value, k: &str| v.get(k).and_then(Value::as_u64).unwrap_or(0);
    let (mut schedules, mut states, mut transitions, mut replayed, mut outcomes, mut reruns) = (0u64, 0u64, 0u64, 0u64, 0u64, 0u64);
    let (mut end_q, mut end_h) = (0u64, 0u64);
    let (mut real_checked, mut real_ok) = (0u64, 0u64);
    let mut real_mismatches: Vec<Value> = vec![];
    let mut max_depth = 0u64;
    let mut complete_cases = 0u64;
    let mut skipped = 0u64;
    let mut wall_hit_cases = 0u64;
    let mut capped_cases = 0u64;
    let mut pruned_cases = 0u64;
    let mut largest: (u64, String) = (0, String::new());
    let mut sizes: Vec<(u64, String)> = vec![];
    let mut single_outcome_multi_schedule = 0u64;
    let mut samples: Vec<Value> = vec![];
    let mut viols: BTreeMap<String, (u64, Value)> = BTreeMap::new();
    let mut obligations: BTreeMap<String, u64> = BTreeMap::new();
    for r in &results {
        if let Some(e) = r.get("error").and_then(Value::as_str) {
            machinery.push(format!("case {} ({}): {e}", g(r, "idx"), r["desc"].as_str().unwrap_or("")));
        }
        if r.get("skipped").is_some() {
            skipped += 1;
            continue;
        }
        schedules += g(r, "schedules");
        states += g(r, "states");
        transitions += g(r, "transitions");
        replayed += g(r, "replayed_steps");
        outcomes += g(r, "outcomes");
        reruns += g(r, "reruns");
        real_checked += g(r, "real_checked");
        real_ok += g(r, "real_ok");
        if let Some(m) = r.get("real_mismatch") {
            if real_mismatches.len() < 5 {
                real_mismatches.push(m.clone());
            }
        }
        end_q += g(r, "end_quiescent");
        end_h += g(r, "end_horizon");
        max_depth = max_depth.max(g(r, "max_depth"));
        if r["case_capped"].as_bool().unwrap_or(false) {
            capped_cases += 1;
        }
        if r["wall_hit"].as_bool().unwrap_or(false) {
            wall_hit_cases += 1;
        } else if r.get("error").is_none() && !r["case_capped"].as_bool().unwrap_or(false) {
            complete_cases += 1;
        }
        if r["pruned"].as_bool().unwrap_or(false) {
            pruned_cases += 1;
        }
        sizes.push((g(r, "schedules"), r["desc"].as_str().unwrap_or("").to_string()));
        if g(r, "schedules") > largest.0 {
            largest = (g(r, "schedules"), r["desc"].as_str().unwrap_or("").to_string());
        }
        if g(r, "schedules") > 50 && g(r, "outcomes") == 1 {
            single_outcome_multi_schedule += 1;
        }
        if let Some(ob) = r.get("obligations").and_then(Value::as_object) {
            for (k, n) in ob {
                *obligations.entry(k.clone()).or_insert(0) += n.as_u64().unwrap_or(0);
            }
        }
        if let Some(s) = r.get("sample") {
            if samples.len() < 3 {
                samples.push(s.clone());
            }
        }
        for v in r["violations"].as_array().into_iter().flatten() {
            let key = v["key"].as_str().unwrap_or("").to_string();
            let cnt = g(v, "count");
            let e = viols.entry(key).or_insert_with(|| {
                let mut vv = v.clone();
                vv["case_index"] = r["idx"].clone();
                vv["case_desc"] = r["desc"].clone();
                (0, vv)
            });
            e.0 += cnt;
        }
    }
    if results.len() != ncases {
        machinery.push(format!("{} of {} cases produced no result", ncases - results.len(), ncases));
    }

    // known findings
    let known = known_findings();
    let is_known = |key: &str| {
        known.iter().any(|k| {
            k["property"].as_str() == Some(prop.id)
                && k["status"].as_str() == Some("known")
                && k["key"].as_str() == Some(key)
        })
    };
    let mut new_violations = 0;
    let mut known_hits = vec![];
    let _ = std::fs::create_dir_all("/verif/replays");
    for (key, (count, v)) in &viols {
        if is_known(key) {
            println!("KNOWN-FINDING: property={} {} ({} executions; {})", prop.id, key, count, v["detail"].as_str().unwrap_or(""));
            known_hits.push(key.clone());
            continue;
        }
        new_violations += 1;
        let h = world::hash_of(&(prop.id, key.as_str()));
        let path = format!(
            "/verif/replays/{}-{}{}{:08x}.json",
            prop.id,
            if prop.id == "C18" { format!("{}-", crate::props::c18::RUNTIME) } else { String::new() },
            if cfg!(debug_assertions) { "dbg-" } else { "" },
            h as u32
        );
        let replay = json!({
            "property": prop.id,
            "tier": tier.name(),
            "flavour": crate::props::c18::RUNTIME,
            "profile": if cfg!(debug_assertions) { "dbg" } else { "release" },
            "case_index": v["case_index"],
            "case_desc": v["case_desc"],
            "clause": v["clause"],
            "key": key,
            "detail": v["detail"],
            "executions_violating": count,
            "choices": v["choices"],
            "log": v["log"],
        });
        let _ = std::fs::write(&path, serde_json::to_string_pretty(&replay).unwrap());
        println!("VIOLATION property={} replay={}", prop.id, path);
        println!("  clause={} key={} case={} :: {}", v["clause"].as_str().unwrap_or(""), key, v["case_desc"].as_str().unwrap_or(""), v["detail"].as_str().unwrap_or(""));
    }

    let vacuous: Vec<&str> = prop.clauses.iter().copied().filter(|c| obligations.get(*c).copied().unwrap_or(0) == 0).collect();
    let exhaustive = machinery.is_empty() && skipped == 0 && wall_hit_cases == 0 && capped_cases == 0 && pruned_cases == 0 && results.len() == ncases;
    let mut caps: Vec<&str> = vec![];
    if skipped > 0 || wall_hit_cases > 0 {
        caps.push("wall");
    }
    if pruned_cases > 0 {
        caps.push("deviation_bound");
    }
    if capped_cases > 0 {
        caps.push("case_cap");
    }
    let max_bound = bounds.iter().flatten().max().copied();
    if samples.is_empty() {
        samples.push(json!({"note": "no sample captured", "cases": descs.iter().take(3).collect::<Vec<_>>()}));
    }
    let mut assumptions: Vec<String> = prop.assumptions.iter().map(|s| s.to_string()).collect();
    assumptions.push("a step is one poll of one task; interleavings inside a poll are not explored (DESIGN.md §7)".into());
    assumptions.push("trusted base: rustc, the controlled executor/explorer (self-tested), runtime shims in src/verif.rs, the futures-util / futures-timer seam patches, harness actors and oracles".into());
    sizes.sort();
    let largest_cases: Vec<Value> = sizes.iter().rev().take(8).map(|(n, d)| json!({"schedules": n, "desc": d})).collect();
    let evidence = json!({
        "property_id": prop.id,
        "tier": tier.name(),
        "seed": seed,
        "level": "model_checking",
        "coverage": {
            "states": states.max(1),
            "transitions": transitions.max(1),
            "traces_validated_against_impl": real_ok,
            "traces_validated_note": "number of cases that were additionally run, unhooked, on a REAL tokio current-thread runtime (paused clock) and whose outcome was found among the outcomes explored under the controlled executor; the explored executions themselves (see `schedules`) are executions of the real hannibal code, there is no separate model of hannibal",
            "real_runtime_runs": real_checked,
            "real_runtime_outcome_not_among_explored": real_checked - real_ok,
            "real_runtime_mismatch_samples": real_mismatches,
            "samples": samples,
            "exhaustive": exhaustive,
            "cases": ncases,
            "cases_run_first_from_the_quick_tier": ncases - own_cases,
            "cases_completed": complete_cases,
            "cases_skipped_wall": skipped,
            "cases_cut_by_wall": wall_hit_cases,
            "cases_cut_by_per_case_cap": capped_cases,
            "cases_with_deviation_bound_pruning": pruned_cases,
            "deviation_bound": max_bound,
            "schedules": schedules,
            "distinct_outcomes_summed_over_cases": outcomes,
            "executions_ending_quiescent": end_q,
            "executions_ending_at_horizon": end_h,
            "max_depth": max_depth,
            "replayed_steps": replayed,
            "determinism_reruns": reruns,
            "largest_case": {"schedules": largest.0, "desc": largest.1},
            "largest_cases": largest_cases,
            "vacuity_warning_cases_single_outcome": single_outcome_multi_schedule,
            "cases_split_across_workers": split_cases,
            "clause_obligations": obligations,
            "clauses_never_under_obligation": vacuous,
            "caps_hit": caps,
            "known_findings_reproduced": known_hits,
            "workers": nworkers,
            "build_profile": if cfg!(debug_assertions) { "dbg (release + debug assertions)" } else { "release" },
            "machinery_errors": machinery,
        },
        "assumptions": assumptions,
        "wall_s": t0.elapsed().as_secs_f64(),
        "violations": new_violations,
    });
    if let Ok(f) = std::env::var("VERIF_EXPORT_FILE") {
        let mut m = serde_json::Map::new();
        for r in &results {
            if let (Some(d), Some(x)) = (r["desc"].as_str(), r.get("export")) {
                let name = if prop.id == "C18" { d.to_string() } else { format!("family {}: {d}", prop.id) };
                m.insert(name, json!({"outcomes": x, "complete": !r["wall_hit"].as_bool().unwrap_or(true) && !r["case_capped"].as_bool().unwrap_or(false), "schedules": r["schedules"]}));
            }
        }
        let _ = std::fs::write(&f, serde_json::to_string(&Value::Object(m)).unwrap());
    }
    let _ = std::fs::create_dir_all("/verif/evidence");
    let path = std::env::var("VERIF_EVIDENCE_FILE").unwrap_or_else(|_| format!("/verif/evidence/{}.json", prop.id));
    std::fs::write(&path, serde_json::to_string_pretty(&evidence).unwrap()).expect("write evidence");
    println!(
        "{} {}{}: cases={} schedules={} states={} transitions={} outcomes={} max_depth={} exhaustive={} caps={:?} wall={:.1}s",
        prop.id,
        tier.name(),
        if cfg!(debug_assertions) { " [debug-assertions build]" } else { "" },
        ncases,
        schedules,
        states,
        transitions,
        outcomes,
        max_depth,
        exhaustive,
        caps,
        t0.elapsed().as_secs_f64()
    );
    if !vacuous.is_empty() {
        println!("WARNING: clauses never under obligation in this run (vacuous): {vacuous:?}");
    }
    if real_checked > real_ok {
        println!("WARNING: {} of {} real-tokio runs produced an outcome that is not among the explored ones (see evidence: real_runtime_mismatch_samples)", real_checked - real_ok, real_checked);
    }
    if single_outcome_multi_schedule > 0 {
        println!("note: {single_outcome_multi_schedule} cases had >50 schedules but a single distinct outcome");
    }
    for m in &machinery {
        eprintln!("MACHINERY-ERROR: {m}");
    }
    // a violation that was found stands even if another case ran into a machinery problem
    if new_violations > 0 {
        1
    } else if !machinery.is_empty() {
        2
    } else {
        0
    }
}

// ---------------------------------------------------------------- replay

pub fn replay_main(props: &[Property], file: &str) -> i32 {
    let Ok(s) = std::fs::read_to_string(file) else {
        eprintln!("cannot read {file}");
        return 2;
    };
    let v: Value = serde_json::from_str(&s).expect("replay file is JSON");
    let pid = v["property"].as_str().unwrap_or("");
    let Some(prop) = props.iter().find(|p| p.id == pid) else {
        eprintln!("unknown property {pid}");
        return 2;
    };
    let tier = if v["tier"].as_str() == Some("thorough") { Tier::Thorough } else { Tier::Quick };
    let (cases, _) = tier_cases(prop, tier);
    let idx = v["case_index"].as_u64().unwrap_or(0) as usize;
    let Some(case) = cases.get(idx) else {
        eprintln!("case index out of range");
        return 2;
    };
    if Some(case.desc.as_str()) != v["case_desc"].as_str() {
        eprintln!("case description mismatch: file {:?} vs generated {:?}", v["case_desc"], case.desc);
        return 2;
    }
    let choices: Vec<(u32, u32)> = v["choices"]
        .as_array()
        .map(|a| {
            a.iter()
                .map(|p| (p[0].as_u64().unwrap_or(0) as u32, p[1].as_u64().unwrap_or(0) as u32))
                .collect()
        })
        .unwrap_or_default();
    let prefix = vexec::choices_to_prefix(&choices);
    quiet_panics();
    let (r1, log1, h1) = run_case_once(case, &prefix);
    let (_r2, _log2, h2) = run_case_once(case, &prefix);
    println!("case: {}", case.desc);
    println!("schedule: {:?}", choices.iter().map(|c| c.0).collect::<Vec<_>>());
    for e in &log1 {
        println!("{}", fmt_entry(e));
    }
    if let Some(d) = &r1.divergence {
        println!("REPLAY-DIVERGENCE: {d}");
        return 2;
    }
    if h1 != h2 {
        println!("REPLAY-NONDETERMINISTIC: two replays differ");
        return 2;
    }
    let viols = case.scene.check(&Trace { log: &log1, res: &r1 });
    if viols.is_empty() {
        println!("replay: no violation");
        0
    } else {
        for vi in viols {
            println!("replay: VIOLATED clause={} key={} :: {}", vi.clause, vi.key, vi.detail);
        }
        1
    }
}

/// `mc show <ID> <tier> <substring>`: runs the default schedule of the first case whose
/// description contains the substring and prints its log (a debugging aid, not a check).
pub fn show_main(props: &[Property], pid: &str, tier: Tier, pat: &str) -> i32 {
    let Some(prop) = props.iter().find(|p| p.id == pid) else {
        eprintln!("unknown property {pid}");
        return 2;
    };
    let (cases, _) = tier_cases(prop, tier);
    let Some((idx, case)) = cases.iter().enumerate().find(|(_, c)| c.desc.contains(pat)) else {
        eprintln!("no case matches {pat:?}");
        return 2;
    };
    quiet_panics();
    let (r1, log1, _) = run_case_once(case, &[]);
    println!("case #{idx}: {}", case.desc);
    for e in &log1 {
        println!("{}", fmt_entry(e));
    }
    for vi in case.scene.check(&Trace { log: &log1, res: &r1 }) {
        println!("VIOLATED clause={} key={} :: {}", vi.clause, vi.key, vi.detail);
    }
    0
}
