//! Client programs as data: an `Op` alphabet over a per-client handle table, and its interpreter.

use futures::FutureExt as _;
use hannibal::{
    spawner::JoinFuture, Addr, Caller, OwningAddr, Sender, WeakAddr, WeakCaller, WeakSender,
};
use std::panic::AssertUnwindSafe;

use crate::{
    vexec,
    world::{self, errkind, Action, Ask, Cmd, Ev, Note, Res, P},
};

/// A reference to a slot of the client's handle table.
#[derive(Clone, Copy, Debug, PartialEq, Eq, Hash)]
pub enum H {
    Addr(u8),
    Own(u8),
    Snd(u8),
    Cal(u8),
    WAddr(u8),
    WSnd(u8),
    WCal(u8),
}

#[derive(Clone, Copy, Debug, PartialEq, Eq)]
pub enum Op {
    /// fire-and-forget Note(id): Addr::send, OwningAddr::send, Sender::send, WeakSender::try_send
    Send(H, u32),
    /// `n` waiting sends in a row, Note(first), Note(first + 1), ... (Addr::send / Sender::send),
    /// logged as one operation: Ok iff every one returned Ok
    Burst(H, u32, u32),
    /// the future of a waiting send (Addr::send / Sender::send) is polled once and, if it did not
    /// complete, dropped: a client that gives up (select!, timeout); result `Abandoned` then
    SendAbandon(H, u32),
    /// the same for a call (Addr::call / Caller::call)
    CallAbandon(H, u32),
    /// WeakSender::try_force_send
    ForceSend(H, u32),
    /// Ask(id): Addr::call, OwningAddr::call, Caller::call, WeakCaller::try_call
    Call(H, u32),
    Ping(H),
    /// send a Cmd(id, action) through the waiting path of an Addr / OwningAddr
    Cmd(H, u32, Action),
    /// Addr::stop, WeakAddr::try_stop, OwningAddr.as_addr clone .stop
    Stop(H),
    /// Addr::halt (consumes the slot), WeakAddr::try_halt
    Halt(H),
    Restart(H),
    /// `addr.await` (consumes the handle)
    Await(H),
    /// await the address in place (`(&mut addr).await`), keeping the handle
    AwaitRef(H),
    Stopped(H),
    Running(H),
    /// clone the address, poll the clone once, drop the clone; result Bool(was ready)
    PollOnce(H),
    /// clone into the next free slot of the same kind
    Clone(H),
    /// Addr -> WeakAddr, Sender -> WeakSender, Caller -> WeakCaller (next free weak slot)
    Downgrade(H),
    /// weak -> strong (next free strong slot if Some); result Some/None
    Upgrade(H),
    /// upgrade a weak handle and drop the result at once; Some/None
    UpgradeProbe(H),
    ToSender(H),
    ToCaller(H),
    ToWeakSender(H),
    ToWeakCaller(H),
    Drop(H),
    /// the handle is dropped by an unwinding panic that the client contains (catch_unwind)
    DropUnwinding(H),
    /// hand the k-th join future of this client over to another client (a post box)...
    JoinGive(u8),
    /// ... which takes it into its own table (program order and sleeps make sure it is there)
    JoinTake,
    /// ping the actor (so that it has started), then replace this client's weak sender and weak
    /// caller (slot 0) by the ones the actor's own context made (`Action::ShareCtxHandles`)
    AdoptCtx,
    /// the same without the ping, for a client that holds weak handles only (nothing happens
    /// when the actor has not shared anything)
    AdoptCtxWeak,
    /// OwningAddr::join().await
    Join(H),
    /// create the join future now, await it with JoinAwait(k)
    JoinStart(H),
    JoinAwait(u8),
    /// drop a join future without ever having polled it
    JoinDrop(u8),
    /// poll a join future once and keep it; Bool(was ready)
    JoinPollOnce(u8),
    Consume(H),
    /// consume_sync: Err at once, or a join future in the next future slot
    ConsumeSync(H),
    Detach(H),
    ToAddr(H),
    Sleep(u32),
    Yield,
    /// make the scene's harness stream yield Item(id)
    Feed(u32),
    CloseStream,
}

#[derive(Default)]
pub struct Handles {
    pub addr: Vec<Option<Addr<P>>>,
    pub own: Vec<Option<OwningAddr<P>>>,
    pub snd: Vec<Option<Sender<Note>>>,
    pub cal: Vec<Option<Caller<Ask>>>,
    pub waddr: Vec<Option<WeakAddr<P>>>,
    pub wsnd: Vec<Option<WeakSender<Note>>>,
    pub wcal: Vec<Option<WeakCaller<Ask>>>,
    pub joins: Vec<Option<JoinFuture<P>>>,
}

impl Handles {
    pub fn with_addr(a: Addr<P>) -> Self {
        Handles {
            addr: vec![Some(a)],
            ..Default::default()
        }
    }
    fn a(&self, i: u8) -> Option<&Addr<P>> {
        self.addr.get(i as usize).and_then(Option::as_ref)
    }
    /// the `Addr` view of an Addr or OwningAddr slot
    fn addr_of(&self, h: H) -> Option<&Addr<P>> {
        match h {
            H::Addr(i) => self.a(i),
            H::Own(i) => self
                .own
                .get(i as usize)
                .and_then(Option::as_ref)
                .map(OwningAddr::as_addr),
            _ => None,
        }
    }
}

fn r_unit(r: hannibal::error::Result<()>) -> Res {
    match r {
        Ok(()) => Res::Ok,
        Err(e) => Res::Err(errkind(&e)),
    }
}

fn r_reply(r: hannibal::error::Result<world::Reply>) -> Res {
    match r {
        Ok(x) => Res::Reply(x),
        Err(e) => Res::Err(errkind(&e)),
    }
}

fn r_join(r: Option<P>) -> Res {
    match r {
        Some(p) => Res::Joined(p.join_val()),
        None => Res::None,
    }
}

/// Result for an operation on an empty slot (programs are generated so that this does not
/// happen; kept total so that a generator bug shows up in the log instead of a panic).
const EMPTY: Res = Res::Err(world::ErrKind::NotFound);

thread_local! {
    /// join futures on their way from one client task to another (`JoinGive` / `JoinTake`)
    static JOIN_POST: std::cell::RefCell<Vec<JoinFuture<P>>> = const { std::cell::RefCell::new(Vec::new()) };
}

/// per-execution hygiene
pub fn reset_post() {
    JOIN_POST.with(|p| p.borrow_mut().clear());
}

fn adopt(h: &mut Handles, share: (WeakSender<Note>, WeakCaller<Ask>, Option<WeakAddr<P>>)) {
    let (ws, wc, wa) = share;
    if h.wsnd.is_empty() {
        h.wsnd.push(None);
    }
    if h.wcal.is_empty() {
        h.wcal.push(None);
    }
    h.wsnd[0] = Some(ws);
    h.wcal[0] = Some(wc);
    if let Some(wa) = wa {
        if h.waddr.is_empty() {
            h.waddr.push(None);
        }
        h.waddr[0] = Some(wa);
    }
}

async fn exec_op(h: &mut Handles, op: Op) -> Res {
    match op {
        Op::JoinGive(k) => match h.joins.get_mut(k as usize).and_then(Option::take) {
            Some(f) => {
                JOIN_POST.with(|p| p.borrow_mut().push(f));
                Res::Ok
            }
            None => EMPTY,
        },
        Op::AdoptCtx => {
            let Some(a) = h.a(0) else { return EMPTY };
            if a.ping().await.is_err() {
                return EMPTY;
            }
            match world::CTX_SHARE.with(|c| c.borrow().clone()) {
                Some(share) => {
                    adopt(h, share);
                    Res::Ok
                }
                None => EMPTY,
            }
        }
        Op::AdoptCtxWeak => {
            if let Some(share) = world::CTX_SHARE.with(|c| c.borrow().clone()) {
                adopt(h, share);
            }
            Res::Ok
        }
        Op::JoinTake => match JOIN_POST.with(|p| p.borrow_mut().pop()) {
            Some(f) => {
                h.joins.push(Some(f));
                Res::Ok
            }
            None => EMPTY,
        },
        Op::Send(t, id) => match t {
            H::Addr(_) => match h.addr_of(t) {
                Some(a) => r_unit(a.send(Note(id)).await),
                None => EMPTY,
            },
            H::Own(i) => match h.own.get(i as usize).and_then(Option::as_ref) {
                Some(o) => r_unit(o.send(Note(id)).await),
                None => EMPTY,
            },
            H::Snd(i) => match h.snd.get(i as usize).and_then(Option::as_ref) {
                Some(s) => r_unit(s.send(Note(id)).await),
                None => EMPTY,
            },
            H::WSnd(i) => match h.wsnd.get(i as usize).and_then(Option::as_ref) {
                Some(s) => r_unit(s.try_send(Note(id)).await),
                None => EMPTY,
            },
            _ => EMPTY,
        },
        Op::Burst(t, first, n) => {
            let mut res = Res::Ok;
            for k in 0..n {
                let r = match t {
                    H::Addr(_) => match h.addr_of(t) {
                        Some(a) => r_unit(a.send(Note(first + k)).await),
                        None => EMPTY,
                    },
                    H::Snd(i) => match h.snd.get(i as usize).and_then(Option::as_ref) {
                        Some(s) => r_unit(s.send(Note(first + k)).await),
                        None => EMPTY,
                    },
                    _ => EMPTY,
                };
                if r != Res::Ok {
                    res = r;
                    break;
                }
            }
            res
        }
        Op::SendAbandon(t, id) => {
            let polled = match t {
                H::Addr(_) => match h.addr_of(t) {
                    Some(a) => futures::poll!(std::pin::pin!(a.send(Note(id)))),
                    None => return EMPTY,
                },
                H::Snd(i) => match h.snd.get(i as usize).and_then(Option::as_ref) {
                    Some(s) => futures::poll!(std::pin::pin!(s.send(Note(id)))),
                    None => return EMPTY,
                },
                _ => return EMPTY,
            };
            match polled {
                std::task::Poll::Ready(r) => r_unit(r),
                std::task::Poll::Pending => Res::Abandoned,
            }
        }
        Op::CallAbandon(t, id) => {
            let polled = match t {
                H::Addr(_) | H::Own(_) => match h.addr_of(t) {
                    Some(a) => futures::poll!(std::pin::pin!(a.call(Ask(id)))),
                    None => return EMPTY,
                },
                H::Cal(i) => match h.cal.get(i as usize).and_then(Option::as_ref) {
                    Some(s) => futures::poll!(std::pin::pin!(s.call(Ask(id)))),
                    None => return EMPTY,
                },
                _ => return EMPTY,
            };
            match polled {
                std::task::Poll::Ready(r) => r_reply(r),
                std::task::Poll::Pending => Res::Abandoned,
            }
        }
        Op::ForceSend(t, id) => match t {
            H::WSnd(i) => match h.wsnd.get(i as usize).and_then(Option::as_ref) {
                Some(s) => r_unit(s.try_force_send(Note(id))),
                None => EMPTY,
            },
            _ => EMPTY,
        },
        Op::Call(t, id) => match t {
            H::Addr(_) => match h.addr_of(t) {
                Some(a) => r_reply(a.call(Ask(id)).await),
                None => EMPTY,
            },
            H::Own(i) => match h.own.get(i as usize).and_then(Option::as_ref) {
                Some(o) => r_reply(o.call(Ask(id)).await),
                None => EMPTY,
            },
            H::Cal(i) => match h.cal.get(i as usize).and_then(Option::as_ref) {
                Some(c) => r_reply(c.call(Ask(id)).await),
                None => EMPTY,
            },
            H::WCal(i) => match h.wcal.get(i as usize).and_then(Option::as_ref) {
                Some(c) => r_reply(c.try_call(Ask(id)).await),
                None => EMPTY,
            },
            _ => EMPTY,
        },
        Op::Ping(t) => match t {
            H::Addr(_) => match h.addr_of(t) {
                Some(a) => r_unit(a.ping().await),
                None => EMPTY,
            },
            H::Own(i) => match h.own.get(i as usize).and_then(Option::as_ref) {
                Some(o) => r_unit(o.ping().await),
                None => EMPTY,
            },
            _ => EMPTY,
        },
        Op::Cmd(t, id, action) => match h.addr_of(t) {
            Some(a) => r_unit(a.send(Cmd(id, action)).await),
            None => EMPTY,
        },
        Op::Stop(t) => match t {
            H::Addr(i) => match h.addr.get_mut(i as usize).and_then(Option::as_mut) {
                Some(a) => r_unit(a.stop()),
                None => EMPTY,
            },
            H::Own(_) => match h.addr_of(t) {
                // the documented way (see the repo's own tests): `owning.to_addr().stop()`
                Some(a) => r_unit(a.clone().stop()),
                None => EMPTY,
            },
            H::WAddr(i) => match h.waddr.get_mut(i as usize).and_then(Option::as_mut) {
                Some(w) => r_unit(w.try_stop()),
                None => EMPTY,
            },
            _ => EMPTY,
        },
        Op::Halt(t) => match t {
            H::Addr(i) => match h.addr.get_mut(i as usize).and_then(Option::take) {
                Some(a) => r_unit(a.halt().await),
                None => EMPTY,
            },
            H::WAddr(i) => match h.waddr.get_mut(i as usize).and_then(Option::as_mut) {
                Some(w) => r_unit(w.try_halt().await),
                None => EMPTY,
            },
            _ => EMPTY,
        },
        Op::Restart(t) => match t {
            H::Addr(i) => match h.addr.get_mut(i as usize).and_then(Option::as_mut) {
                Some(a) => r_unit(a.restart()),
                None => EMPTY,
            },
            _ => EMPTY,
        },
        Op::Await(t) => match t {
            H::Addr(i) => match h.addr.get_mut(i as usize).and_then(Option::take) {
                Some(a) => r_unit(a.await),
                None => EMPTY,
            },
            _ => EMPTY,
        },
        Op::AwaitRef(t) => match t {
            H::Addr(i) => match h.addr.get_mut(i as usize).and_then(Option::as_mut) {
                Some(a) => r_unit(a.await),
                None => EMPTY,
            },
            _ => EMPTY,
        },
        Op::Stopped(t) => match t {
            H::WAddr(i) => match h.waddr.get(i as usize).and_then(Option::as_ref) {
                Some(w) => Res::Bool(w.stopped()),
                None => EMPTY,
            },
            _ => match h.addr_of(t) {
                Some(a) => Res::Bool(a.stopped()),
                None => EMPTY,
            },
        },
        Op::PollOnce(t) => match h.addr_of(t).cloned() {
            Some(mut a) => Res::Bool(futures::poll!(&mut a).is_ready()),
            None => EMPTY,
        },
        Op::Running(t) => match h.addr_of(t) {
            Some(a) => Res::Bool(a.running()),
            None => EMPTY,
        },
        Op::Clone(t) => {
            match t {
                H::Addr(_) | H::Own(_) => {
                    if let Some(a) = h.addr_of(t).cloned() {
                        h.addr.push(Some(a));
                        return Res::Ok;
                    }
                }
                H::Snd(i) => {
                    if let Some(s) = h.snd.get(i as usize).and_then(Option::as_ref).cloned() {
                        h.snd.push(Some(s));
                        return Res::Ok;
                    }
                }
                H::Cal(i) => {
                    if let Some(s) = h.cal.get(i as usize).and_then(Option::as_ref).cloned() {
                        h.cal.push(Some(s));
                        return Res::Ok;
                    }
                }
                H::WAddr(i) => {
                    if let Some(s) = h.waddr.get(i as usize).and_then(Option::as_ref).cloned() {
                        h.waddr.push(Some(s));
                        return Res::Ok;
                    }
                }
                H::WSnd(i) => {
                    if let Some(s) = h.wsnd.get(i as usize).and_then(Option::as_ref).cloned() {
                        h.wsnd.push(Some(s));
                        return Res::Ok;
                    }
                }
                H::WCal(i) => {
                    if let Some(s) = h.wcal.get(i as usize).and_then(Option::as_ref).cloned() {
                        h.wcal.push(Some(s));
                        return Res::Ok;
                    }
                }
            }
            EMPTY
        }
        Op::Downgrade(t) => {
            match t {
                H::Addr(_) | H::Own(_) => {
                    if let Some(w) = h.addr_of(t).map(Addr::downgrade) {
                        h.waddr.push(Some(w));
                        return Res::Ok;
                    }
                }
                H::Snd(i) => {
                    if let Some(w) = h.snd.get(i as usize).and_then(Option::as_ref).map(Sender::downgrade) {
                        h.wsnd.push(Some(w));
                        return Res::Ok;
                    }
                }
                H::Cal(i) => {
                    if let Some(w) = h.cal.get(i as usize).and_then(Option::as_ref).map(Caller::downgrade) {
                        h.wcal.push(Some(w));
                        return Res::Ok;
                    }
                }
                _ => {}
            }
            EMPTY
        }
        Op::Upgrade(t) => match t {
            H::WAddr(i) => match h.waddr.get(i as usize).and_then(Option::as_ref) {
                Some(w) => match w.upgrade() {
                    Some(a) => {
                        h.addr.push(Some(a));
                        Res::Some
                    }
                    None => Res::None,
                },
                None => EMPTY,
            },
            H::WSnd(i) => match h.wsnd.get(i as usize).and_then(Option::as_ref) {
                Some(w) => match w.upgrade() {
                    Some(a) => {
                        h.snd.push(Some(a));
                        Res::Some
                    }
                    None => Res::None,
                },
                None => EMPTY,
            },
            H::WCal(i) => match h.wcal.get(i as usize).and_then(Option::as_ref) {
                Some(w) => match w.upgrade() {
                    Some(a) => {
                        h.cal.push(Some(a));
                        Res::Some
                    }
                    None => Res::None,
                },
                None => EMPTY,
            },
            _ => EMPTY,
        },
        Op::UpgradeProbe(t) => {
            let some = match t {
                H::WAddr(i) => h.waddr.get(i as usize).and_then(Option::as_ref).map(|w| w.upgrade().is_some()),
                H::WSnd(i) => h.wsnd.get(i as usize).and_then(Option::as_ref).map(|w| w.upgrade().is_some()),
                H::WCal(i) => h.wcal.get(i as usize).and_then(Option::as_ref).map(|w| w.upgrade().is_some()),
                _ => None,
            };
            match some {
                Some(true) => Res::Some,
                Some(false) => Res::None,
                None => EMPTY,
            }
        }
        Op::ToSender(t) => match h.addr_of(t).map(crate::scenes::to_sender) {
            Some(s) => {
                h.snd.push(Some(s));
                Res::Ok
            }
            None => EMPTY,
        },
        Op::ToCaller(t) => match h.addr_of(t).map(|a| a.caller::<Ask>()) {
            Some(s) => {
                h.cal.push(Some(s));
                Res::Ok
            }
            None => EMPTY,
        },
        Op::ToWeakSender(t) => match h.addr_of(t).map(crate::scenes::to_weak_sender) {
            Some(s) => {
                h.wsnd.push(Some(s));
                Res::Ok
            }
            None => EMPTY,
        },
        Op::ToWeakCaller(t) => match h.addr_of(t).map(crate::scenes::to_weak_caller) {
            Some(s) => {
                h.wcal.push(Some(s));
                Res::Ok
            }
            None => EMPTY,
        },
        Op::Drop(t) => {
            let had = match t {
                H::Addr(i) => h.addr.get_mut(i as usize).and_then(Option::take).is_some(),
                H::Own(i) => h.own.get_mut(i as usize).and_then(Option::take).is_some(),
                H::Snd(i) => h.snd.get_mut(i as usize).and_then(Option::take).is_some(),
                H::Cal(i) => h.cal.get_mut(i as usize).and_then(Option::take).is_some(),
                H::WAddr(i) => h.waddr.get_mut(i as usize).and_then(Option::take).is_some(),
                H::WSnd(i) => h.wsnd.get_mut(i as usize).and_then(Option::take).is_some(),
                H::WCal(i) => h.wcal.get_mut(i as usize).and_then(Option::take).is_some(),
            };
            if had {
                Res::Ok
            } else {
                EMPTY
            }
        }
        Op::DropUnwinding(t) => {
            fn unwind_with<T>(x: Option<T>) -> bool {
                let had = x.is_some();
                let _ = std::panic::catch_unwind(std::panic::AssertUnwindSafe(move || {
                    let _held = x;
                    panic!("client panic while holding a handle (contained)");
                }));
                had
            }
            let had = match t {
                H::Addr(i) => unwind_with(h.addr.get_mut(i as usize).and_then(Option::take)),
                H::Own(i) => unwind_with(h.own.get_mut(i as usize).and_then(Option::take)),
                H::Snd(i) => unwind_with(h.snd.get_mut(i as usize).and_then(Option::take)),
                H::Cal(i) => unwind_with(h.cal.get_mut(i as usize).and_then(Option::take)),
                _ => false,
            };
            if had {
                Res::Ok
            } else {
                EMPTY
            }
        }
        Op::Join(t) => match t {
            H::Own(i) => match h.own.get_mut(i as usize).and_then(Option::as_mut) {
                Some(o) => {
                    let f = o.join();
                    r_join(f.await)
                }
                None => EMPTY,
            },
            _ => EMPTY,
        },
        Op::JoinStart(t) => match t {
            H::Own(i) => match h.own.get_mut(i as usize).and_then(Option::as_mut) {
                Some(o) => {
                    let f = o.join();
                    h.joins.push(Some(f));
                    Res::Ok
                }
                None => EMPTY,
            },
            _ => EMPTY,
        },
        Op::JoinAwait(k) => match h.joins.get_mut(k as usize).and_then(Option::take) {
            Some(f) => r_join(f.await),
            None => EMPTY,
        },
        Op::JoinPollOnce(k) => match h.joins.get_mut(k as usize).and_then(Option::as_mut) {
            Some(f) => match futures::poll!(f.as_mut()) {
                std::task::Poll::Ready(v) => {
                    h.joins[k as usize] = None;
                    r_join(v)
                }
                std::task::Poll::Pending => Res::Bool(false),
            },
            None => EMPTY,
        },
        Op::JoinDrop(k) => match h.joins.get_mut(k as usize).and_then(Option::take) {
            Some(f) => {
                drop(f);
                Res::Ok
            }
            None => EMPTY,
        },
        Op::Consume(t) => match t {
            H::Own(i) => match h.own.get_mut(i as usize).and_then(Option::take) {
                Some(o) => match o.consume().await {
                    Ok(p) => Res::Joined(p.join_val()),
                    Err(e) => Res::Err(errkind(&e)),
                },
                None => EMPTY,
            },
            _ => EMPTY,
        },
        Op::ConsumeSync(t) => match t {
            H::Own(i) => match h.own.get_mut(i as usize).and_then(Option::take) {
                Some(o) => match o.consume_sync() {
                    Ok(f) => {
                        h.joins.push(Some(f));
                        Res::Ok
                    }
                    Err(e) => Res::Err(errkind(&e)),
                },
                None => EMPTY,
            },
            _ => EMPTY,
        },
        Op::Detach(t) => match t {
            H::Own(i) => match h.own.get_mut(i as usize).and_then(Option::take) {
                Some(o) => {
                    h.addr.push(Some(o.detach()));
                    Res::Ok
                }
                None => EMPTY,
            },
            _ => EMPTY,
        },
        Op::ToAddr(t) => match t {
            H::Own(i) => match h.own.get(i as usize).and_then(Option::as_ref) {
                Some(o) => {
                    let a = o.to_addr();
                    h.addr.push(Some(a));
                    Res::Ok
                }
                None => EMPTY,
            },
            _ => EMPTY,
        },
        Op::Sleep(t) => {
            world::sleep(t).await;
            Res::Ok
        }
        Op::Yield => {
            vexec::yield_now().await;
            Res::Ok
        }
        Op::Feed(id) => {
            crate::scenes::STREAM.with(|s| {
                if let Some(st) = s.borrow().as_ref() {
                    st.feed(id)
                }
            });
            Res::Ok
        }
        Op::CloseStream => {
            crate::scenes::STREAM.with(|s| {
                if let Some(st) = s.borrow().as_ref() {
                    st.close()
                }
            });
            Res::Ok
        }
    }
}

/// Runs a client's script; every operation is bracketed by Begin/End log entries. When the
/// script is over the remaining handles are dropped (that is itself logged as an operation so
/// that oracles can see when the client's strong handles went away).
pub async fn run_client(c: u8, mut h: Handles, ops: Vec<Op>) {
    for (i, op) in ops.iter().enumerate() {
        let i = i as u16;
        world::log(Ev::Begin { c, i });
        let r = AssertUnwindSafe(exec_op(&mut h, *op)).catch_unwind().await;
        let r = r.unwrap_or(Res::Panicked);
        world::log(Ev::End { c, i, r });
    }
    let i = ops.len() as u16;
    world::log(Ev::Begin { c, i });
    drop(h);
    world::log(Ev::End { c, i, r: Res::Ok });
}
