//! Helpers to read an execution's log.

use crate::world::{Cb, Entry, Ev, Res, XEv};

#[derive(Clone, Copy, Debug)]
pub struct OpRec {
    pub c: u8,
    pub i: u16,
    pub begin: usize,
    pub end: Option<usize>,
    pub res: Option<Res>,
}

impl OpRec {
    pub fn ok(&self) -> bool {
        self.res.is_some_and(|r| r.is_ok())
    }
}

#[derive(Clone, Copy, Debug)]
pub struct CbRec {
    pub idx: usize,
    pub a: u8,
    pub inst: u16,
    pub inc: u16,
    pub cb: Cb,
    pub time: u64,
    pub step: u64,
}

pub struct An<'a> {
    pub log: &'a [Entry],
    pub ops: Vec<OpRec>,
    pub enters: Vec<CbRec>,
    pub exits: Vec<CbRec>,
    pub afters: Vec<CbRec>,
    /// tasks spawned through the backend in spawn order: (task id, log idx of spawn)
    pub spawned: Vec<(u32, usize)>,
    /// task id -> (log idx of its end, cancelled)
    pub ended: Vec<(u32, usize, bool)>,
}

impl<'a> An<'a> {
    pub fn new(log: &'a [Entry]) -> Self {
        let mut ops: Vec<OpRec> = vec![];
        let mut enters = vec![];
        let mut exits = vec![];
        let mut afters = vec![];
        let mut spawned = vec![];
        let mut ended = vec![];
        for (idx, e) in log.iter().enumerate() {
            match e.ev {
                Ev::Begin { c, i } => ops.push(OpRec { c, i, begin: idx, end: None, res: None }),
                Ev::End { c, i, r } => {
                    if let Some(o) = ops.iter_mut().rev().find(|o| o.c == c && o.i == i) {
                        o.end = Some(idx);
                        o.res = Some(r);
                    }
                }
                Ev::Enter { a, inst, inc, cb } => enters.push(CbRec { idx, a, inst, inc, cb, time: e.time, step: e.step }),
                Ev::Exit { a, inst, inc, cb } => exits.push(CbRec { idx, a, inst, inc, cb, time: e.time, step: e.step }),
                Ev::After { a, inst, inc, cb } => afters.push(CbRec { idx, a, inst, inc, cb, time: e.time, step: e.step }),
                Ev::X(XEv::Spawn { task, client: false, .. }) => spawned.push((task, idx)),
                Ev::X(XEv::End { task, cancelled }) => ended.push((task, idx, cancelled)),
                _ => {}
            }
        }
        An { log, ops, enters, exits, afters, spawned, ended }
    }

    pub fn op(&self, c: u8, i: u16) -> Option<&OpRec> {
        self.ops.iter().find(|o| o.c == c && o.i == i)
    }

    /// log index at which the n-th backend-spawned task ended
    pub fn task_end(&self, nth_spawned: usize) -> Option<(usize, bool)> {
        let (task, _) = *self.spawned.get(nth_spawned)?;
        self.ended.iter().find(|(t, _, _)| *t == task).map(|(_, i, c)| (*i, *c))
    }

    /// task that ran the `started` callback of role `a` (first incarnation)
    pub fn task_of_role(&self, a: u8) -> Option<u32> {
        self.enters.iter().find(|e| e.a == a && e.cb == Cb::Started).map(|e| self.log[e.idx].task)
    }

    pub fn end_of_task(&self, task: u32) -> Option<(usize, bool)> {
        self.ended.iter().find(|(t, _, _)| *t == task).map(|(_, i, c)| (*i, *c))
    }

    /// Did the actor of role `a` fail? Read off the trace, independently of whether `stopped()`
    /// happened to run: a callback that was entered but never completed (panic, or a handler
    /// abandoned by a failing timeout), a `started()` configured to return an error that was
    /// reached, or a cancelled task.
    pub fn role_failed(&self, a: u8, started: &[crate::world::StartBeh]) -> bool {
        self.role_failed_except(a, started, None)
    }

    /// ... where the handler of message `abandoned` was cut off by a carry-on limit (it logs no
    /// exit and that is no failure)
    pub fn role_failed_except(&self, a: u8, started: &[crate::world::StartBeh], abandoned: Option<u32>) -> bool {
        let unmatched = self.enters.iter().any(|e| e.a == a && Some(e.cb) != abandoned.map(Cb::Msg) && !self.exits.iter().any(|x| x.a == a && x.cb == e.cb && x.inc == e.inc && x.idx > e.idx));
        let starts = self.enters.iter().filter(|e| e.a == a && e.cb == Cb::Started).count();
        let start_err = started.iter().take(starts).any(|b| *b != crate::world::StartBeh::Ok);
        let cancelled = self.task_of_role(a).and_then(|t| self.end_of_task(t)).is_some_and(|(_, c)| c);
        unmatched || start_err || cancelled
    }

    pub fn enter_of_msg(&self, a: u8, id: u32) -> Vec<&CbRec> {
        self.enters.iter().filter(|e| e.a == a && e.cb == Cb::Msg(id)).collect()
    }

    pub fn exit_of_msg(&self, a: u8, id: u32) -> Option<&CbRec> {
        self.exits.iter().find(|e| e.a == a && e.cb == Cb::Msg(id))
    }
}
