//! `mc c18-compare <tier>`: compares the per-program outcome sets exported by the three
//! per-runtime explorations and writes /verif/evidence/C18.json.

use serde_json::{json, Value};
use std::collections::{BTreeMap, BTreeSet};

const RTS: [&str; 3] = ["tokio", "async-std", "smol"];
/// families of other properties that check.sh may explore on all three builds for C18
const FAMILIES: [&str; 4] = ["C17", "C02", "C04", "C13"];

fn load(path: &str) -> Option<Value> {
    serde_json::from_str(&std::fs::read_to_string(path).ok()?).ok()
}

pub fn main(tier: &str) -> i32 {
    let t0 = std::time::Instant::now();
    let seed: u64 = std::env::var("VERIF_SEED").ok().and_then(|s| s.parse().ok()).unwrap_or(0);
    let mut exports: Vec<Value> = vec![];
    let mut evid: Vec<Value> = vec![];
    let mut machinery: Vec<String> = vec![];
    for rt in RTS {
        match (load(&format!("/verif/.target/c18-{rt}-export.json")), load(&format!("/verif/.target/c18-{rt}-evidence.json"))) {
            (Some(mut x), Some(e)) => {
                // whole families of other properties explored on this build as well
                // (c18-<rt>-export-<ID>.json, written by check.sh): same comparison
                for fam in FAMILIES {
                    if let Some(Value::Object(m)) = load(&format!("/verif/.target/c18-{rt}-export-{fam}.json")) {
                        if let Some(xm) = x.as_object_mut() {
                            xm.extend(m);
                        }
                    }
                }
                exports.push(x);
                evid.push(e);
            }
            _ => {
                machinery.push(format!("no result from the {rt} build"));
                exports.push(json!({}));
                evid.push(json!({}));
            }
        }
    }
    let known: Vec<Value> = load("/verif/known_findings.json").and_then(|v| v.as_array().cloned()).unwrap_or_default();
    let is_known = |key: &str| known.iter().any(|k| k["property"] == "C18" && k["status"] == "known" && k["key"].as_str() == Some(key));
    // per program: outcome sets must be equal
    let mut descs: BTreeSet<String> = BTreeSet::new();
    for x in &exports {
        if let Some(m) = x.as_object() {
            descs.extend(m.keys().cloned());
        }
    }
    let mut compared = 0u64;
    let mut family_cases = 0u64;
    let mut skipped_family_cases = 0u64;
    let mut total_outcomes = 0u64;
    let mut new_violations = 0;
    let mut samples: Vec<Value> = vec![];
    let _ = std::fs::create_dir_all("/verif/replays");
    for d in &descs {
        let mut sets: Vec<BTreeMap<String, String>> = vec![];
        let mut complete = true;
        for x in &exports {
            let mut m = BTreeMap::new();
            match x.get(d) {
                Some(c) => {
                    complete &= c["complete"].as_bool().unwrap_or(false);
                    for o in c["outcomes"].as_array().into_iter().flatten() {
                        m.insert(o[0].as_str().unwrap_or("").to_string(), o[1].as_str().unwrap_or("").to_string());
                    }
                }
                None => complete = false,
            }
            sets.push(m);
        }
        if !complete {
            // (cases of the borrowed families that hit a cap on some build are left out)
            if d.starts_with("family ") {
                skipped_family_cases += 1;
            } else {
                machinery.push(format!("program {d:?} was not explored completely on every runtime"));
            }
            continue;
        }
        if d.starts_with("family ") {
            family_cases += 1;
        }
        compared += 1;
        total_outcomes += sets[0].len() as u64;
        let keys: Vec<BTreeSet<&String>> = sets.iter().map(|m| m.keys().collect()).collect();
        if samples.len() < 3 {
            samples.push(json!({"program": d, "distinct_outcomes_per_runtime": [sets[0].len(), sets[1].len(), sets[2].len()], "one_outcome": sets[0].values().next()}));
        }
        if keys[0] == keys[1] && keys[1] == keys[2] {
            continue;
        }
        // which runtime deviates? (majority vote; tokio is the reference on a three-way split)
        let odd = if keys[0] == keys[1] { 2 } else if keys[0] == keys[2] { 1 } else if keys[1] == keys[2] { 0 } else { 2 };
        let reference = if odd == 0 { 1 } else { 0 };
        let only_odd: Vec<&String> = keys[odd].difference(&keys[reference]).copied().collect();
        let only_ref: Vec<&String> = keys[reference].difference(&keys[odd]).copied().collect();
        let prog = d.trim_start_matches("runtime-equivalence ").replace(' ', "/");
        let key = format!("C18/{}/outcome-set-differs/{prog}", RTS[odd]);
        let what = format!(
            "{}: {} outcome(s) only on {}, {} only on {}; e.g. {:?} vs {:?}",
            d,
            only_odd.len(),
            RTS[odd],
            only_ref.len(),
            RTS[reference],
            only_odd.first().and_then(|h| sets[odd].get(*h)),
            only_ref.first().and_then(|h| sets[reference].get(*h))
        );
        if is_known(&key) {
            println!("KNOWN-FINDING: property=C18 {key} ({what})");
            continue;
        }
        new_violations += 1;
        let path = format!("/verif/replays/C18-cmp-{:08x}.json", crate::world::hash_of(&key) as u32);
        let _ = std::fs::write(
            &path,
            serde_json::to_string_pretty(&json!({
                "property": "C18", "tier": tier, "key": key, "program": d,
                "outcomes": {RTS[0]: sets[0], RTS[1]: sets[1], RTS[2]: sets[2]},
                "note": "re-run `./check.sh C18 quick`; per-runtime executions can be replayed from the C18-<runtime>-*.json files of the per-execution clauses",
            }))
            .unwrap(),
        );
        println!("VIOLATION property=C18 replay={path}");
        println!("  clause=same-outcome-set-on-every-runtime key={key} :: {what}");
    }
    // violations found by the per-runtime explorations were printed (and counted) by them
    let g = |e: &Value, k: &str| e["coverage"][k].as_u64().unwrap_or(0);
    let per_rt_viol: i64 = evid.iter().map(|e| e["violations"].as_i64().unwrap_or(0)).sum();
    for e in &evid {
        for m in e["coverage"]["machinery_errors"].as_array().into_iter().flatten() {
            machinery.push(m.as_str().unwrap_or("").to_string());
        }
    }
    let conformance = load("/verif/.target/c18-conformance.json").unwrap_or(json!({}));
    let exhaustive = machinery.is_empty() && evid.iter().all(|e| e["coverage"]["exhaustive"].as_bool().unwrap_or(false));
    let evidence = json!({
        "property_id": "C18",
        "tier": tier,
        "seed": seed,
        "level": "model_checking",
        "coverage": {
            "states": evid.iter().map(|e| g(e, "states")).sum::<u64>().max(1),
            "transitions": evid.iter().map(|e| g(e, "transitions")).sum::<u64>().max(1),
            "traces_validated_against_impl": conformance["real_observations_reproduced"].as_u64().unwrap_or(0),
            "traces_validated_note": "micro-programs over hannibal's Spawner API run on the REAL tokio (current-thread and multi-thread), async-std and smol runtimes whose observation was found among the shim's explored outcomes (`mc conformance`, all three builds)",
            "samples": samples,
            "exhaustive": exhaustive,
            "programs_compared_across_runtimes": compared,
            "of_which_cases_of_other_properties_families": family_cases,
            "family_cases_left_out_because_a_cap_was_hit_on_some_build": skipped_family_cases,
            "families_note": "besides C18's own programs, whole case families of other properties (quick tier: C17; thorough: C17, C02, C04, C13) are explored on all three builds with their oracles switched off, and the set of outcomes of every case is compared across the builds",
            "distinct_outcomes_of_compared_programs": total_outcomes,
            "schedules_per_runtime": {RTS[0]: g(&evid[0], "schedules"), RTS[1]: g(&evid[1], "schedules"), RTS[2]: g(&evid[2], "schedules")},
            "cases_per_runtime": g(&evid[0], "cases"),
            "conformance": conformance,
            "family_cases_also_run_on_real_tokio_and_found_among_explored_outcomes": evid[0]["coverage"]["traces_validated_against_impl"],
            "clause_obligations_per_runtime": [evid[0]["coverage"]["clause_obligations"], evid[1]["coverage"]["clause_obligations"], evid[2]["coverage"]["clause_obligations"]],
            "machinery_errors": machinery,
        },
        "assumptions": evid[0]["assumptions"],
        "wall_s": t0.elapsed().as_secs_f64() + evid.iter().map(|e| e["wall_s"].as_f64().unwrap_or(0.0)).sum::<f64>(),
        "violations": new_violations + per_rt_viol,
    });
    std::fs::write("/verif/evidence/C18.json", serde_json::to_string_pretty(&evidence).unwrap()).expect("write evidence");
    println!("C18 {tier}: {compared} programs compared across {} runtimes ({family_cases} of them cases of other properties' families), {total_outcomes} distinct outcomes, outcome-set differences: {new_violations}", RTS.len());
    if !machinery.is_empty() {
        for m in &machinery {
            eprintln!("MACHINERY-ERROR: {m}");
        }
        return 2;
    }
    if new_violations > 0 {
        1
    } else {
        0
    }
}
