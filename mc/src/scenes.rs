//! Shared scene building blocks.

use std::time::Duration;

use hannibal::OwningAddr;

use crate::world::{Probe, P};

#[derive(Clone, Copy, Debug, PartialEq, Eq)]
pub enum Mailbox {
    U,
    B(usize),
}

impl Mailbox {
    pub fn name(self) -> String {
        match self {
            Mailbox::U => "U".into(),
            Mailbox::B(n) => format!("B{n}"),
        }
    }
}

#[derive(Clone, Copy, Debug, PartialEq, Eq)]
pub enum Strat {
    Default,
    Recreate,
    NonRestartable,
}

#[derive(Clone, Copy, Debug, PartialEq, Eq)]
pub struct SpawnCfg {
    pub mailbox: Mailbox,
    pub strat: Strat,
    /// (timeout in ticks, fail_on_timeout)
    pub timeout: Option<(u32, bool)>,
}

impl SpawnCfg {
    pub const fn plain(mailbox: Mailbox) -> Self {
        SpawnCfg {
            mailbox,
            strat: Strat::Default,
            timeout: None,
        }
    }
}

/// Spawns a `Probe` through the public builder.
pub fn spawn_probe(role: u8, cfg: SpawnCfg) -> OwningAddr<P> {
    let mut b = hannibal::build(Probe::<0>::new(role));
    if let Some((t, fail)) = cfg.timeout {
        b = b.timeout(Duration::from_millis(t as u64)).fail_on_timeout(fail);
    }
    let b = match cfg.mailbox {
        Mailbox::U => b.unbounded(),
        Mailbox::B(n) => b.bounded(n),
    };
    match cfg.strat {
        Strat::Default => b.spawn_owning(),
        Strat::Recreate => b.recreate_from_default().spawn_owning(),
        Strat::NonRestartable => b.non_restartable().spawn_owning(),
    }
}

/// Drives a future to completion inside scene setup (no task context): polls it with a no-op
/// waker; the lock shim's yield points return `Pending` once each, nothing else may block.
pub fn block_inline<T>(fut: impl std::future::Future<Output = T>) -> T {
    let mut fut = std::pin::pin!(fut);
    let waker = futures::task::noop_waker();
    let mut cx = std::task::Context::from_waker(&waker);
    for _ in 0..64 {
        if let std::task::Poll::Ready(t) = fut.as_mut().poll(&mut cx) {
            return t;
        }
    }
    panic!("block_inline: future did not complete (scene setup must not block)");
}
