//! Shared scene building blocks.

use std::time::Duration;

use hannibal::OwningAddr;

use crate::world::{Probe, P};

#[derive(Clone, Copy, Debug, PartialEq, Eq)]
pub enum Mailbox {
    U,
    B(usize),
}

impl Mailbox {
    pub fn name(self) -> String {
        match self {
            Mailbox::U => "U".into(),
            Mailbox::B(n) => format!("B{n}"),
        }
    }
}

#[derive(Clone, Copy, Debug, PartialEq, Eq)]
pub enum Strat {
    Default,
    Recreate,
    NonRestartable,
}

#[derive(Clone, Copy, Debug, PartialEq, Eq)]
pub struct SpawnCfg {
    pub mailbox: Mailbox,
    pub strat: Strat,
    /// (timeout in ticks, fail_on_timeout)
    pub timeout: Option<(u32, bool)>,
}

impl SpawnCfg {
    pub const fn plain(mailbox: Mailbox) -> Self {
        SpawnCfg {
            mailbox,
            strat: Strat::Default,
            timeout: None,
        }
    }
}

/// A neutral re-configuration applied to *every* `spawn_probe` of an execution (scene setup and
/// spawns made by actors while it runs): none of it may change what a property speaks about, so
/// a family wrapped in [`crate::check::with_ambient`] re-checks its oracle on another code path.
#[derive(Clone, Copy, Debug, Default, PartialEq, Eq)]
pub struct Ambient {
    /// a handler timeout far beyond every horizon (1000 ticks, carry on) where none is configured
    pub generous_timeout: bool,
    /// recreate-from-default where the default strategy is asked for
    pub recreate: bool,
    /// a bounded mailbox that never fills (16) where an unbounded one is asked for
    pub roomy: bool,
    /// attach a stream that is open and never ready (the other event loop); only for scenes
    /// that never restart the actor
    pub stream: bool,
}

thread_local! {
    static AMBIENT: std::cell::Cell<Ambient> = const { std::cell::Cell::new(Ambient { generous_timeout: false, recreate: false, roomy: false, stream: false }) };
}

thread_local! {
    /// handle conversions go through the `From<&Addr>` impls instead of the `Addr` methods
    /// (which use the `From<Addr>` ones): switched on together with the recreate passes, which
    /// are neutral re-runs anyway
    static ALT_CONV: std::cell::Cell<bool> = const { std::cell::Cell::new(false) };
}

pub fn set_alt_conv(on: bool) {
    ALT_CONV.with(|c| c.set(on));
}

pub fn alt_conv() -> bool {
    ALT_CONV.with(|c| c.get())
}

pub fn to_sender(a: &hannibal::Addr<P>) -> hannibal::Sender<crate::world::Note> {
    if alt_conv() { hannibal::Sender::from(a) } else { a.sender() }
}

pub fn to_weak_sender(a: &hannibal::Addr<P>) -> hannibal::WeakSender<crate::world::Note> {
    if alt_conv() { hannibal::WeakSender::from(a) } else { a.weak_sender() }
}

pub fn to_weak_caller(a: &hannibal::Addr<P>) -> hannibal::WeakCaller<crate::world::Ask> {
    if alt_conv() { hannibal::WeakCaller::from(a) } else { a.weak_caller() }
}

pub fn to_weak_addr(a: &hannibal::Addr<P>) -> hannibal::WeakAddr<P> {
    if alt_conv() { hannibal::WeakAddr::from(a) } else { a.downgrade() }
}

pub fn set_ambient(a: Ambient) {
    AMBIENT.with(|c| c.set(a));
}

pub fn ambient() -> Ambient {
    AMBIENT.with(|c| c.get())
}

/// Spawns a `Probe` through the public builder.
pub fn spawn_probe(role: u8, cfg: SpawnCfg) -> OwningAddr<P> {
    spawn_probe_ordered(role, cfg, 0)
}

/// ... with the timeout options given in one of the four orders the builder allows:
/// 0 = timeout, fail_on_timeout before the mailbox; 1 = fail_on_timeout, timeout before it;
/// 2 = timeout, fail_on_timeout after it; 3 = fail_on_timeout, timeout after it.
pub fn spawn_probe_ordered(role: u8, cfg: SpawnCfg, order: u8) -> OwningAddr<P> {
    match spawn_probe_terminal(role, cfg, order, false) {
        OwningOrAddr::Own(o) => o,
        OwningOrAddr::Addr(_) => unreachable!("owning terminal asked for"),
    }
}

/// ... and through the builder's *detached* terminal `spawn()` (no owner at all) when nobody in
/// the scene needs one: the two terminals are separate code paths that must apply the same
/// configuration.
pub fn spawn_probe_detached(role: u8, cfg: SpawnCfg, order: u8) -> hannibal::Addr<P> {
    match spawn_probe_terminal(role, cfg, order, true) {
        OwningOrAddr::Addr(a) => a,
        OwningOrAddr::Own(o) => o.detach(),
    }
}

fn spawn_probe_terminal(role: u8, cfg: SpawnCfg, order: u8, detached: bool) -> OwningOrAddr {
    let amb = ambient();
    let mut cfg = cfg;
    if amb.generous_timeout && cfg.timeout.is_none() {
        cfg.timeout = Some((1000, false));
    }
    if amb.recreate && cfg.strat == Strat::Default {
        cfg.strat = Strat::Recreate;
    }
    if amb.roomy && cfg.mailbox == Mailbox::U {
        cfg.mailbox = Mailbox::B(16);
    }
    macro_rules! finish {
        ($b:expr) => {
            if detached {
                OwningOrAddr::Addr($b.spawn())
            } else {
                OwningOrAddr::Own($b.spawn_owning())
            }
        };
    }
    if amb.stream {
        let mut b = hannibal::build(Probe::<0>::new(role));
        if let Some((t, fail)) = cfg.timeout {
            b = b.timeout(crate::world::ms(t)).fail_on_timeout(fail);
        }
        let never = HStream::default();
        return match cfg.mailbox {
            Mailbox::U => finish!(b.on_stream(never)),
            Mailbox::B(n) => finish!(b.bounded_on_stream(n, never)),
        };
    }
    let mut b = hannibal::build(Probe::<0>::new(role));
    if let Some((t, fail)) = cfg.timeout {
        let t = crate::world::ms(t);
        match order {
            0 => b = b.timeout(t).fail_on_timeout(fail),
            1 => b = b.fail_on_timeout(fail).timeout(t),
            // the limit is given twice: a tiny one and the other answer to fail_on_timeout first,
            // then - after the mailbox - the ones that count (4); or the ones that count first
            // and, overwritten right away, again (5)
            4 => b = b.timeout(crate::world::ms(1)).fail_on_timeout(!fail),
            5 => b = b.timeout(crate::world::ms(1)).fail_on_timeout(!fail).timeout(t).fail_on_timeout(fail),
            _ => {}
        }
    }
    let b = match cfg.mailbox {
        Mailbox::U => b.unbounded(),
        Mailbox::B(n) => b.bounded(n),
    };
    let b = match (cfg.timeout, order) {
        (Some((t, fail)), 2 | 4) => b.timeout(crate::world::ms(t)).fail_on_timeout(fail),
        (Some((t, fail)), 3) => b.fail_on_timeout(fail).timeout(crate::world::ms(t)),
        _ => b,
    };
    match cfg.strat {
        Strat::Default => finish!(b),
        Strat::Recreate => finish!(b.recreate_from_default()),
        Strat::NonRestartable => finish!(b.non_restartable()),
    }
}

/// Drives a future to completion inside scene setup (no task context): polls it with a no-op
/// waker; the lock shim's yield points return `Pending` once each, nothing else may block.
pub fn block_inline<T>(fut: impl std::future::Future<Output = T>) -> T {
    let mut fut = std::pin::pin!(fut);
    let waker = futures::task::noop_waker();
    let mut cx = std::task::Context::from_waker(&waker);
    for _ in 0..64 {
        if let std::task::Poll::Ready(t) = fut.as_mut().poll(&mut cx) {
            return t;
        }
    }
    panic!("block_inline: future did not complete (scene setup must not block)");
}

// ------------------------------------------------------------------ harness stream

use std::{
    collections::VecDeque,
    sync::{Arc, Mutex},
    task::{Context as TaskCx, Poll, Waker},
};

#[derive(Default)]
pub struct StreamState {
    queue: VecDeque<u32>,
    closed: bool,
    /// `None` has been returned: like `stream::unfold` and most hand-written streams this one
    /// is not fused - polling it again is a bug of the caller and panics
    ended: bool,
    waker: Option<Waker>,
    pub yielded: u32,
}

/// A stream of `Item`s under harness control: ready exactly when something was fed.
#[derive(Clone, Default)]
pub struct HStream(pub Arc<Mutex<StreamState>>);

impl HStream {
    pub fn feed(&self, id: u32) {
        let mut s = self.0.lock().unwrap_or_else(std::sync::PoisonError::into_inner);
        s.queue.push_back(id);
        if let Some(w) = s.waker.take() {
            w.wake();
        }
    }
    pub fn close(&self) {
        let mut s = self.0.lock().unwrap_or_else(std::sync::PoisonError::into_inner);
        s.closed = true;
        if let Some(w) = s.waker.take() {
            w.wake();
        }
    }
}

impl futures::Stream for HStream {
    type Item = crate::world::Item;
    fn poll_next(self: std::pin::Pin<&mut Self>, cx: &mut TaskCx<'_>) -> Poll<Option<Self::Item>> {
        let mut s = self.0.lock().unwrap_or_else(std::sync::PoisonError::into_inner);
        assert!(!s.ended, "harness stream polled again after it returned None (streams need not be fused)");
        if let Some(x) = s.queue.pop_front() {
            s.yielded += 1;
            Poll::Ready(Some(crate::world::Item(x)))
        } else if s.closed {
            s.ended = true;
            Poll::Ready(None)
        } else {
            s.waker = Some(cx.waker().clone());
            Poll::Pending
        }
    }
}

thread_local! {
    /// the stream of the current scene, for the Feed / CloseStream client operations
    pub static STREAM: std::cell::RefCell<Option<HStream>> = const { std::cell::RefCell::new(None) };
}

#[derive(Clone, Copy, Debug, PartialEq, Eq)]
pub enum StreamVia {
    SpawnOnStream,
    BuildOnStream,
    BoundedOnStream(usize),
    SpawnOwningOnStream,
    /// spawn_on_stream / the stream builder with an item type for which the harness actor does
    /// not override `StreamHandler::finished` (the provided default runs, and logs nothing)
    SpawnOnStreamPlainItems,
    BuildOnStreamPlainItems,
}

/// the harness stream with its items re-typed (see `StreamVia::*PlainItems`)
pub struct PlainStream(HStream);
impl futures::Stream for PlainStream {
    type Item = crate::world::PlainItem;
    fn poll_next(mut self: std::pin::Pin<&mut Self>, cx: &mut TaskCx<'_>) -> Poll<Option<Self::Item>> {
        std::pin::Pin::new(&mut self.0).poll_next(cx).map(|o| o.map(|i| crate::world::PlainItem(i.0)))
    }
}

/// Spawns a stream-attached probe; `prefill` items are ready at once, `close` ends the stream
/// after them.
pub fn spawn_probe_on_stream(role: u8, via: StreamVia, prefill: &[u32], close: bool, timeout: Option<(u32, bool)>) -> OwningOrAddr {
    use hannibal::prelude::*;
    let st = HStream::default();
    for &i in prefill {
        st.feed(i);
    }
    if close {
        st.close();
    }
    STREAM.with(|s| *s.borrow_mut() = Some(st.clone()));
    let probe = Probe::<0>::new(role);
    match via {
        StreamVia::SpawnOnStream => OwningOrAddr::Addr(probe.spawn_on_stream(st).expect("spawn_on_stream")),
        StreamVia::SpawnOwningOnStream => OwningOrAddr::Own(probe.spawn_owning_on_stream(st).expect("spawn_owning_on_stream")),
        StreamVia::SpawnOnStreamPlainItems => OwningOrAddr::Addr(probe.spawn_on_stream(PlainStream(st)).expect("spawn_on_stream")),
        StreamVia::BuildOnStreamPlainItems => OwningOrAddr::Own(hannibal::build(probe).on_stream(PlainStream(st)).spawn_owning()),
        StreamVia::BuildOnStream => {
            let mut b = hannibal::build(probe);
            if let Some((t, fail)) = timeout {
                b = b.timeout(crate::world::ms(t)).fail_on_timeout(fail);
            }
            OwningOrAddr::Own(b.on_stream(st).spawn_owning())
        }
        StreamVia::BoundedOnStream(n) => {
            let mut b = hannibal::build(probe);
            if let Some((t, fail)) = timeout {
                b = b.timeout(crate::world::ms(t)).fail_on_timeout(fail);
            }
            OwningOrAddr::Own(b.bounded_on_stream(n, st).spawn_owning())
        }
    }
}

pub enum OwningOrAddr {
    Own(OwningAddr<P>),
    Addr(hannibal::Addr<P>),
}
