#!/bin/bash
# Builds the harness (three runtime flavours, plus the tokio one with debug assertions on) offline from files on disk, self-tests the
# executor/explorer and binds the runtime shims to the real runtimes.
set -eu
cd /verif/mc
export CARGO_NET_OFFLINE=true
CARGO_TARGET_DIR=/verif/.target cargo build --release --offline --no-default-features --features rt-tokio 2>&1 | tail -2
CARGO_TARGET_DIR=/verif/.target cargo build --profile dbg --offline --no-default-features --features rt-tokio 2>&1 | tail -2
CARGO_TARGET_DIR=/verif/.target-async cargo build --release --offline --no-default-features --features rt-async 2>&1 | tail -2
CARGO_TARGET_DIR=/verif/.target-smol cargo build --release --offline --no-default-features --features rt-smol 2>&1 | tail -2
/verif/.target/release/mc selftest
/verif/.target/release/mc conformance | tail -1
/verif/.target-async/release/mc conformance | tail -1
/verif/.target-smol/release/mc conformance | tail -1
