#!/bin/bash
# Builds the harness offline from files on disk and self-tests the executor/explorer.
set -eu
cd /verif/mc
export CARGO_NET_OFFLINE=true
cargo build --release --offline 2>&1 | tail -3
/verif/.target/release/mc selftest
