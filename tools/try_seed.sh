#!/bin/bash
# usage: tools/try_seed.sh <ID> [worktree]   - confirm a seeded change independently, file it under /verif/seeded/<ID>/,
# run the quick check of <ID> against it (applied to /repo, then undone).
set -u
ID=$1
id=$(echo "$ID" | tr 'A-Z' 'a-z')
WT=${2:-/tmp/wt-$ID}
NAME=${3:-$ID}
OUT=/verif/seeded/$NAME
mkdir -p "$OUT"
cd "$WT" || exit 2
export CARGO_TARGET_DIR=$WT/target CARGO_NET_OFFLINE=true
git diff -- src > "$OUT/patch.diff"
cp tests/demo_$id.rs "$OUT/" 2>/dev/null
cp NOTES.md "$OUT/" 2>/dev/null
echo "== suite with change"
SUITE=$(cargo test --lib --offline 2>&1 | grep -E "^test result" | head -1)
echo "$SUITE"
echo "== demo with change (3 runs)"
DEMO_WITH=""
for i in 1 2 3; do
  if cargo test --offline --test demo_$id >/dev/null 2>&1; then DEMO_WITH="$DEMO_WITH pass"; else DEMO_WITH="$DEMO_WITH FAIL"; fi
done
echo "$DEMO_WITH"
git stash -q -- src
echo "== demo without change (3 runs)"
DEMO_WITHOUT=""
for i in 1 2 3; do
  if cargo test --offline --test demo_$id >/dev/null 2>&1; then DEMO_WITHOUT="$DEMO_WITHOUT pass"; else DEMO_WITHOUT="$DEMO_WITHOUT FAIL"; fi
done
echo "$DEMO_WITHOUT"
git stash pop -q
echo "== quick check of $ID against the change"
git -C /repo apply "$OUT/patch.diff" || { echo "cannot apply to /repo"; exit 2; }
cd /verif
./check.sh "$ID" quick > "$OUT/check-output.txt" 2>&1
RC=$?
git -C /repo checkout -- .
git -C /repo status --short | head -3
grep -E "^VIOLATION|quick:" "$OUT/check-output.txt" | head -5
echo "exit=$RC"
python3 - "$ID" "$SUITE" "$DEMO_WITH" "$DEMO_WITHOUT" "$RC" "$NAME" <<'PY'
import json,sys,re
ID,suite,dw,dwo,rc,name=sys.argv[1:7]
out=f"/verif/seeded/{name}"
keys=sorted(set(re.findall(r"key=(\S+)", open(f"{out}/check-output.txt").read())))
notes=open(f"{out}/NOTES.md").read() if __import__('os').path.exists(f"{out}/NOTES.md") else ""
meta={"property":ID,"source":"written by an independent sub-agent that saw only the property text and a scratch worktree of /repo",
 "repo_suite_with_change":suite,"demo_with_change":dw.split(),"demo_without_change":dwo.split(),
 "quick_check_exit":int(rc),"quick_check_violation_keys":keys[:12],
 "detected_by_quick_check": int(rc)==1,
 "ran":[f"cargo test --lib --offline (in the agent's worktree, change applied)",f"cargo test --offline --test demo_{ID.lower()} (with and without the change, 3 runs each)",f"git -C /repo apply /verif/seeded/{name}/patch.diff; ./check.sh {ID} quick; git -C /repo checkout -- ."]}
json.dump(meta,open(f"{out}/meta.json","w"),indent=1)
PY
