#!/bin/bash
# runs the quick tier of every claimed property against /repo's working tree, one after the other
# (idle machine), which rewrites evidence/<ID>.json; prints one line per property
cd /verif || exit 2
rc=0
for p in C01 C02 C03 C04 C05 C06 C07 C08 C09 C10 C11 C12 C13 C14 C15 C16 C17 C18; do
  s=$(date +%s)
  ./check.sh $p quick > /verif/.target/allquick-$p.log 2>&1
  r=$?
  echo "$p exit=$r wall=$(( $(date +%s) - s ))s $(grep -E ' quick:' /verif/.target/allquick-$p.log | tail -1 | cut -c1-150)"
  [ $r -ne 0 ] && rc=1
done
exit $rc
