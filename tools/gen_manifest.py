#!/usr/bin/env python3
"""Regenerates /verif/MANIFEST.json from the table below (kept next to the checks it describes)."""
import json, subprocess

HOOK_COMMITS = ["50f8845", "8f435d1", "6f4592f", "c39cf0a", "1aac454"]

# property -> (level text, note)
CLAIMED = {
 "C01": ("all schedules of every client program of the family (shapes up to 3 operations over the full submission alphabet, 4 operations over representatives; mailbox U/B0/B1/B2; instant and yielding handlers) are executed on the real code; handler overlap, at-most-once, real-time FIFO order and state-is-fold are evaluated on every complete execution", ""),
 "C02": ("all schedules of 2-3 concurrent callers through Addr/OwningAddr/Caller/WeakCaller plus a resolver (halt/await/join), crossed with every termination cause at every position (client stop, last drop, start failure/panic, handler panic, stopped panic, timeout failure, cancellation before the j-th poll); own-response, resolves, and verdict clauses on every execution", ""),
 "C04": ("all schedules of stop requests through every entry point racing with submissions and awaiters; drain barrier, post-stop barrier, announce-after-stopped and verdict clauses evaluated on every complete execution", ""),
 "C07": ("all schedules of programs with 1-2 restart requests (Addr::restart, Context::restart) at every position among sends/calls, three strategies, start failure on restart, timers registered in started() and in handlers on the virtual clock; incarnation-bounds, strategy semantics, state carried/reset and stale-timer clauses on every execution", ""),
 "C08": ("all schedules (lock acquisitions are scheduling points; in the short histories the holder of the registry lock is additionally suspended once while holding it) of registry histories of 1-3 clients, on two builds of the harness (release semantics; debug assertions on, where hannibal pings a freshly spawned service); every complete execution's history is checked by brute force for a linearization against a sequential registry model; a scene in which a service looks up another service from started() checks that every registry operation returns", "identity of an address is observed by a call through it"),
 "C12": ("all schedules of 1-3 senders (waiting and forcing paths, interval_with, a concurrent stop) on mailboxes U/B0..B2; the backpressure bound is evaluated at every log position of every execution", ""),
 "C03": ("all schedules of 1-2 client programs over send/call/stop (three entry points)/restart/drop/feed/close on plain actors (three strategies, mailbox U/B1, start failure, an interval tick queued) and stream-attached actors (four spawn paths, four stream shapes); the callback word of every execution is run through the started/handle*/[finished]/stopped automaton", ""),
 "C05": ("all schedules (deviation-bounded for the larger timer scenes) of handle-manipulation scripts of 1-2 clients plus a weak observer, with interval / slow interval_with / delayed_exec / broker subscription active; strong handles are tracked on the harness side and the alive-while-strong, last-drop-drains-and-terminates and upgrade clauses are evaluated on every execution", ""),
 "C06": ("every single fault of the alphabet (start error/panic, handler panic, stopped panic, timeout failure, cancellation before the j-th poll) applied to actor A in sub-scenes (pending/later operations, awaiters+owner, bystander, children, timers, registry; all schedules) and in the full scene (deviation-bounded); containment clauses on every execution", ""),
 "C09": ("all schedules of single-client broker programs and deviation-bounded schedules of 2-3 client programs over subscribe (client- and context-side), re-subscribe, unsubscribe, publish (three ways), drop/stop of subscribers on 1-2 topics; exactly-once, must/must-not deliver, common order and keep-alive clauses on every execution; explored on two builds (release semantics, debug assertions on) with the holder of the registry lock suspended once while holding it", ""),
 "C10": ("timer configurations (four kinds x periods 1-3, registered in started() or a handler, one or two timers) x termination (stop/drop/panic/timeout failure/never) at virtual times 0-6 x mailbox U/B0/B1 x instant/slow handlers, in discrete-event time (exact clauses) and with timer expiry racing runnable tasks (one-sided clauses); all schedules, task census at the end", ""),
 "C11": ("timeouts 1/2/5 x message sequences of length 1-3 with durations {0,t-1,t,t+1,2t} x fail_on_timeout x mailbox U/B1 x two client layouts, plus the no-timeout configuration; all schedules including the select! tie-break; completion / abandonment / exact abandonment time / state-intact clauses", ""),
 "C13": ("streams (empty, finite ready, fed in bursts then closed or left open, never ready) x spawn path x 0-2 client ops (send/call/stop/ctx-stop/drop) x instant/yielding handlers; all schedules and all outcomes of the loop's select! tie-break; item order/once/no-loss, handler-never-abandoned, finished-then-stopped and termination clauses", ""),
 "C16": ("actor trees of 2-3 nodes (depth up to 2, children under two broadcast types or add_child, some also held outside) x every parent termination cause (incl. cancellation before the j-th poll) x 0-2 broadcasts; all schedules for two-node trees, deviation-bounded for larger ones", ""),
 "C14": ("all schedules of termination cause x awaiting pattern x observer kind (and of the registry operations that depend on the answers), on two builds (release semantics, debug assertions on); stopped()/running() answers compared with the termination step on every execution", ""),
 "C15": ("every non-empty subset of {Addr, OwningAddr, Sender, Caller} as the only surviving strong handles, built through three conversion paths, with self-stop, self-restart, interval, delayed_send and every weak upgrade probed; all schedules", ""),
 "C17": ("all schedules of owner scripts (join, repeated and concurrent joins, consume, consume_sync, detach, to_addr+drop, late variants) against submitters, a stopper and failure causes; join-after-termination, final-state, handed-out-once clauses on every execution", ""),
 "C18": ("the same family (23 spawn entry points x 16 timing-independent client programs, plus all owner scripts of C17 on the owning entry points; and, with their own oracles off, the whole case families of C17 - thorough: C17, C02, C04, C13 -) is explored with all schedules on three builds of the harness - tokio_runtime, async_runtime, smol_runtime, each spawner running unchanged on its shim; per execution the spawned actor must answer a call issued after the spawn expression returned, per program the set of outcomes over all schedules must be identical on the three builds; the shims are bound to the real runtimes by a conformance suite run on real tokio (current-thread and multi-thread), async-std and smol", "the three runtimes are represented by their shims (conformance-tested against the real ones on every run)"),
}

REASON_PENDING = "check not built yet in this round (planned, DESIGN.md section 3); not claimed until it runs"
REASONS = {
 "C19": "model checking cannot apply: the property is about programs the compiler rejects, so there is no execution, schedule, state or history to enumerate - the deciding step would be rustc's type checker, a different family (DESIGN.md section 3, C19)",
}

props = [json.loads(l) for l in open('/verif/properties.jsonl')]
m = {
 "version": 1,
 "setup_cmd": "./setup.sh",
 "hooks": {
   "guard": "cargo feature `verif` (off by default)",
   "enable": "the harness crate /verif/mc depends on hannibal = { path = \"/repo\", features = [\"verif\", <runtime>] }, so every check rebuilds /repo's working tree with the hooks on",
   "baseline_off_cmd": "cd /repo && (cargo nextest run --workspace --no-fail-fast --tool-config-file pb:/w/lib/nextest.toml --profile pb --test-threads 8 --offline || cargo test --workspace --no-fail-fast --offline)",
   "source_commits": HOOK_COMMITS,
   "add_only": True,
 },
 "engines": [{
   "name": "mc", "path": "/verif/mc", "serves_properties": sorted(CLAIMED),
   "kind_free_text": "stateless exhaustive (deviation-bounded fallback) DFS over schedules of the real hannibal code on a controlled single-threaded executor with a virtual clock; 16 worker processes",
 }],
 "checks": [],
 "not_applicable": [],
 "notes": "exit 0 = held on everything explored; exit 1 + VIOLATION line = violation not listed in known_findings.json; exit 2 = machinery problem (never a verdict). VERIF_WALL_S overrides the wall budget, VERIF_SEED permutes the case order. Most families are additionally explored under neutral re-configurations of every harness actor (a handler timeout nobody comes near, a bounded mailbox that never fills, recreate-from-default, the stream event loop) with the same oracle - DESIGN.md section 3.0.",
}
for p in props:
    pid = p['id']
    if pid in CLAIMED:
        text, note = CLAIMED[pid]
        m['checks'].append({
          "property_id": pid,
          "quick_cmd": f"./check.sh {pid} quick",
          "thorough_cmd": f"./check.sh {pid} thorough",
          "evidence_file": f"/verif/evidence/{pid}.json",
          "replay_cmd_template": "./check.sh replay {path}",
          "engine": "mc",
          "level_claimed": {"category": "model_checking", "text": text, "design_ref": f"DESIGN.md section 3, {pid}"},
          "level_note": ("step = one poll of one task; trusted: rustc, executor/explorer (self-tested), runtime shims, the two dependency seam patches, harness actors, oracle. " + note).strip(),
          "technique": "stateless exhaustive schedule exploration of the implementation (model checking, CHESS style)",
        })
    else:
        m['not_applicable'].append({"property_id": pid, "reason": REASONS.get(pid, REASON_PENDING)})
json.dump(m, open('/verif/MANIFEST.json', 'w'), indent=1)
print("claimed:", sorted(CLAIMED))
