#!/usr/bin/env python3
"""usage: tools/make_seed_prompt.py <ID> <worktree> [minutes]  - prints the task text given to an independent
sub-agent (the property's text and a scratch worktree of /repo; nothing from /verif)."""
import json, sys
p, wt = sys.argv[1], sys.argv[2]
minutes = sys.argv[3] if len(sys.argv) > 3 else "15"
d = {json.loads(l)['id']: json.loads(l) for l in open('/verif/properties.jsonl')}[p]
lo = p.lower()
print(f"""You are helping test a verification harness for the Rust actor library hoodie/hannibal. You have your own scratch git worktree of the library at {wt} (work ONLY there; never touch /repo or /verif, and do not read anything under /verif). Use `export CARGO_TARGET_DIR={wt}/target CARGO_NET_OFFLINE=true` and `--offline` for all cargo commands (no network is available).

Here is a semantic property the library is supposed to satisfy:

ID: {p}
Title: {d['title']}
Statement: {d['statement']}
Quantifier: {d['quantifier']['text']}
Anchors (files): {', '.join(d['anchors']['files'])}

Your task: write ONE change to the library source (under src/ only, default features, no new dependencies) that BREAKS this property while (a) still compiling without new warnings being errors, and (b) still passing the existing test suite: `cargo test --lib --offline` must still report 41 passed. The change should look like a plausible, well-meant edit (an optimisation, a refactoring, a 'fix', a fast path, a cache, a reordered statement) - not sabotage that any ordinary use would expose at once. It must need something SPECIFIC to manifest: a particular interleaving of tasks, a fault at a particular point, a multi-step sequence of operations, an unusual configuration or input, or two cooperating sites that each look fine alone.

Many earlier changes for this property have already been tried, covering the obvious ideas. So read EVERY file under src/ once more and pick a code path or a combination of features that is unlikely to have been touched: interactions between features (streams x restart, children x failure, registry x restart, timeouts x calls pending, weak handles x bounded mailboxes, Context-made handles, builder options, runtime-specific spawner code), rarely used API entry points, thresholds and magnitudes, state that survives across incarnations.

Then write a demonstration: an integration test file tests/demo_{lo}.rs (tokio is a dev-dependency) that FAILS deterministically with your change and PASSES without it (verify both: `git stash -- src` / `git stash pop`; 3 runs each way). The test must assert the property itself, not an implementation detail.

Finally write {wt}/NOTES.md: what the change is, why it breaks the property, what exactly it needs to manifest, and the commands you ran with their results. Leave the change applied (uncommitted) in the worktree, with tests/demo_{lo}.rs and NOTES.md present. Do not commit. Keep to roughly {minutes} minutes of work; prefer a small sharp change over an elaborate one. In your final reply give a 5-line summary: files touched, what it needs to manifest, suite result, demo result with/without.""")
