#!/bin/bash
# Applies every seeded change in turn and runs ALL quick checks against it; writes seeded/MATRIX.md
# (which checks catch which changes). Leaves /repo clean.
cd /verif
OUT=/verif/seeded/MATRIX.md
PROPS="C01 C02 C03 C04 C05 C06 C07 C08 C09 C10 C11 C12 C13 C14 C15 C16 C17 C18"
echo "# Which quick checks catch which seeded changes" > $OUT
echo >> $OUT
echo "Each seeded change applied to /repo in turn, every quick check run against it (\`tools/matrix.sh\`). X = exit 1 with a VIOLATION line, ! = exit 2 (machinery), . = exit 0. The change's own property is marked with brackets." >> $OUT
echo >> $OUT
echo "| seed | $(echo $PROPS | sed 's/ / | /g') |" >> $OUT
echo "|---|$(for p in $PROPS; do echo -n '---|'; done)" >> $OUT
for d in seeded/*/; do
  name=$(basename $d)
  [ -f $d/patch.diff ] || continue
  own=${name%%-*}
  git -C /repo reset -q --hard HEAD
  if [ "$name" = "C18-r2" ]; then git -C /repo checkout 8f435d1 -- src/actor/spawner/smol_spawner.rs; fi
  if ! git -C /repo apply /verif/$d/patch.diff 2>/dev/null; then echo "| $name | (does not apply) |" >> $OUT; git -C /repo reset -q --hard HEAD; continue; fi
  row="| $name |"
  for p in $PROPS; do
    VERIF_WALL_S=40 VERIF_EVIDENCE_FILE=/verif/.target/matrix-ev.json ./check.sh $p quick > /verif/.target/matrix-out.txt 2>&1
    rc=$?
    case $rc in 0) m=".";; 1) m="X";; *) m="!";; esac
    if [ "$p" = "$own" ]; then m="[$m]"; fi
    row="$row $m |"
  done
  echo "$row" >> $OUT
  echo "$row"
  git -C /repo reset -q --hard HEAD
done
git -C /repo status --short
