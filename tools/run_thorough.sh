#!/bin/bash
# runs every thorough tier with a wall budget each (default 300 s) and collects the summary lines
W=${1:-300}
mkdir -p /verif/.target/thorough
for p in C01 C02 C03 C04 C05 C06 C07 C08 C09 C10 C11 C12 C13 C14 C15 C16 C17 C18; do
  VERIF_WALL_S=$W /verif/check.sh $p thorough > /verif/.target/thorough/$p.log 2>&1
  echo "$p exit=$? $(grep -E 'thorough:' /verif/.target/thorough/$p.log | tail -1)"
  cp /verif/evidence/$p.json /verif/.target/thorough/$p.evidence.json 2>/dev/null
done
