#!/bin/bash
# usage: ./check.sh <ID> <quick|thorough>      run the check of one property against /repo's working tree
#        ./check.sh replay <file>              re-execute one recorded schedule
# exit 0 = held on everything explored, 1 = VIOLATION (line printed), 2 = machinery problem
set -u
cd /verif/mc || exit 2
export CARGO_NET_OFFLINE=true
LOG=/verif/.target/build-$$.log
mkdir -p /verif/.target
if ! cargo build --release --offline >"$LOG" 2>&1; then
    echo "MACHINERY-ERROR: harness build failed (is /repo's working tree compiling with --features verif?)" >&2
    grep -E "^error" -A12 "$LOG" | head -60 >&2
    rm -f "$LOG"
    exit 2
fi
rm -f "$LOG"
MC=/verif/.target/release/mc
case "${1:-}" in
    replay) exec "$MC" replay "$2" ;;
    selftest) exec "$MC" selftest ;;
    "") echo "usage: $0 <ID> <quick|thorough> | replay <file>" >&2; exit 2 ;;
    *) exec "$MC" check "$1" "${2:-${VERIF_TIER:-quick}}" ;;
esac
