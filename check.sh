#!/bin/bash
# usage: ./check.sh <ID> <quick|thorough>      run the check of one property against /repo's working tree
#        ./check.sh replay <file>              re-execute one recorded schedule
# exit 0 = held on everything explored, 1 = VIOLATION (line printed), 2 = machinery problem
set -u
cd /verif/mc || exit 2
export CARGO_NET_OFFLINE=true
mkdir -p /verif/.target

# build <target-dir-suffix> <feature>: (re)builds one flavour of the harness against /repo's working tree
build() {
    local log=/verif/.target/build$1-$$.log
    if ! CARGO_TARGET_DIR=/verif/.target$1 cargo build --release --offline --no-default-features --features "$2" >"$log" 2>&1; then
        echo "MACHINERY-ERROR: harness build ($2) failed (does /repo's working tree compile with --features verif?)" >&2
        grep -E "^error" -A12 "$log" | head -60 >&2
        rm -f "$log"
        return 2
    fi
    rm -f "$log"
}

case "${1:-}" in
    "") echo "usage: $0 <ID> <quick|thorough> | replay <file>" >&2; exit 2 ;;
    replay)
        flavour=$(python3 -c "import json,sys; print(json.load(open(sys.argv[1])).get('flavour','tokio'))" "$2" 2>/dev/null || echo tokio)
        case "$flavour" in
            async-std) build -async rt-async || exit 2; exec /verif/.target-async/release/mc replay "$2" ;;
            smol) build -smol rt-smol || exit 2; exec /verif/.target-smol/release/mc replay "$2" ;;
            *)
                profile=$(python3 -c "import json,sys; print(json.load(open(sys.argv[1])).get('profile','release'))" "$2" 2>/dev/null || echo release)
                if [ "$profile" = dbg ]; then
                    CARGO_TARGET_DIR=/verif/.target cargo build --profile dbg --offline --no-default-features --features rt-tokio >/dev/null 2>&1 || { echo "MACHINERY-ERROR: harness build (debug assertions) failed" >&2; exit 2; }
                    exec /verif/.target/dbg/mc replay "$2"
                fi
                build "" rt-tokio || exit 2; exec /verif/.target/release/mc replay "$2" ;;
        esac ;;
    selftest) build "" rt-tokio || exit 2; exec /verif/.target/release/mc selftest ;;
    C18)
        tier="${2:-${VERIF_TIER:-quick}}"
        build "" rt-tokio || exit 2
        build -async rt-async || exit 2
        build -smol rt-smol || exit 2
        rm -f /verif/.target/c18-*.json
        rc=0
        for f in ":tokio" "-async:async-std" "-smol:smol"; do
            dir=${f%%:*}; rt=${f##*:}
            # the shim of each runtime is first bound to the real runtime
            VERIF_CONFORMANCE_FILE=/verif/.target/c18-conformance.json /verif/.target$dir/release/mc conformance >/verif/.target/c18-$rt-conformance.log 2>&1
            cr=$?
            if [ $cr -eq 1 ]; then
                # the shim agrees with the real runtime, but hannibal's own runtime entry point does
                # not behave as on the other runtimes: a finding, not a machinery problem
                grep -E -A1 "^VIOLATION" /verif/.target/c18-$rt-conformance.log
                rc=1
            elif [ $cr -ne 0 ]; then
                echo "MACHINERY-ERROR: shim conformance failed on $rt" >&2; cat /verif/.target/c18-$rt-conformance.log >&2; exit 2
            fi
            VERIF_EXPORT_FILE=/verif/.target/c18-$rt-export.json VERIF_EVIDENCE_FILE=/verif/.target/c18-$rt-evidence.json \
                /verif/.target$dir/release/mc check C18 "$tier"
            r=$?
            [ $r -gt $rc ] && rc=$r
            # whole families of other properties on this build, for their outcome sets only
            # (oracles off; quick cases of the family in both tiers)
            if [ "$tier" = thorough ]; then fams="C17 C02 C04 C13"; else fams="C17"; fi
            for fam in $fams; do
                VERIF_OUTCOMES_ONLY=1 VERIF_NO_REAL=1 VERIF_EXPORT_FILE=/verif/.target/c18-$rt-export-$fam.json VERIF_EVIDENCE_FILE=/verif/.target/c18-$rt-evidence-$fam.json \
                    /verif/.target$dir/release/mc check "$fam" quick >/verif/.target/c18-$rt-$fam.log 2>&1 \
                    || { echo "MACHINERY-ERROR: family $fam could not be explored on $rt" >&2; tail -3 /verif/.target/c18-$rt-$fam.log >&2; exit 2; }
            done
        done
        [ $rc -ge 2 ] && exit 2
        /verif/.target/release/mc c18-compare "$tier"
        r=$?
        # a violation found on one of the builds (or by the comparison) is a violation, also when
        # the comparison could not be completed for every program (a run cut by its wall budget)
        if [ $rc -eq 1 ] || [ $r -eq 1 ]; then exit 1; fi
        [ $r -gt $rc ] && rc=$r
        exit $rc ;;
    C08|C09|C14)
        # properties that involve the service registry are explored on two builds: release
        # semantics, and debug assertions on (hannibal then pings a freshly spawned service
        # inside from_registry, which changes what is held across which await)
        tier="${2:-${VERIF_TIER:-quick}}"
        build "" rt-tokio || exit 2
        if ! CARGO_TARGET_DIR=/verif/.target cargo build --profile dbg --offline --no-default-features --features rt-tokio >/verif/.target/build-dbg-$$.log 2>&1; then
            echo "MACHINERY-ERROR: harness build (debug assertions) failed" >&2
            grep -E "^error" -A12 /verif/.target/build-dbg-$$.log | head -60 >&2
            rm -f /verif/.target/build-dbg-$$.log
            exit 2
        fi
        rm -f /verif/.target/build-dbg-$$.log /verif/.target/$1-dbg-evidence.json
        /verif/.target/release/mc check "$1" "$tier"; r1=$?
        VERIF_EVIDENCE_FILE=/verif/.target/$1-dbg-evidence.json /verif/.target/dbg/mc check "$1" "$tier"; r2=$?
        # the second build's coverage goes into the same evidence file
        python3 - "$1" <<'PY'
import json, sys
pid = sys.argv[1]
try:
    main = json.load(open(f"/verif/evidence/{pid}.json"))
    dbg = json.load(open(f"/verif/.target/{pid}-dbg-evidence.json"))
    main["coverage"]["debug_assertions_build"] = {**dbg["coverage"], "wall_s": dbg["wall_s"], "violations": dbg.get("violations", 0)}
    main["violations"] = main.get("violations", 0) + dbg.get("violations", 0)
    main["wall_s"] = main["wall_s"] + dbg["wall_s"]
    json.dump(main, open(f"/verif/evidence/{pid}.json", "w"), indent=1)
except Exception as e:
    print(f"MACHINERY-ERROR: cannot merge the evidence of the two builds: {e}", file=sys.stderr)
    sys.exit(2)
PY
        r3=$?
        if [ $r1 -eq 1 ] || [ $r2 -eq 1 ]; then exit 1; fi
        if [ $r1 -ne 0 ] || [ $r2 -ne 0 ] || [ $r3 -ne 0 ]; then exit 2; fi
        exit 0 ;;
    *)
        build "" rt-tokio || exit 2
        exec /verif/.target/release/mc check "$1" "${2:-${VERIF_TIER:-quick}}" ;;
esac
